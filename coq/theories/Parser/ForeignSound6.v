(** Soundness of foreign-key resolution, part 6 (property C06): the canonical printer [xprint] of the
    full source AST agrees with the printer of stage 1 on unpadded sources, so the parser statement
    [parse_args_statement] holds for every source of the full AST that is the image of a well-formed
    stage-1 source without padding and formatter. *)
From Coq Require Import List NArith ZArith Bool Arith Lia.
Import ListNotations.
From LI Require Import Base.StrOps Base.StrLemmas Parser.Parse Parser.Json Parser.Reduce Parser.Source Parser.RoundTrip1
  Parser.RoundTrip2 Parser.RoundTrip3 Parser.RoundTrip4 Parser.ReduceProofs Parser.Foreign Parser.ForeignSound2 Parser.ForeignFull
  Parser.ForeignSound4 Parser.ForeignSound5 Parser.RoundTripRef1 Parser.RoundTripRef2 Parser.RoundTripRef3 Parser.RoundTripRef4.
Open Scope N_scope.

(** no whitespace padding, no formatter *)
Definition is_nil (s : str) : bool := match s with [] => true | _ => false end.
Definition seg_bare (p : pseg) : bool := let '(l, _, r) := p in is_nil l && is_nil r.
Definition kp_bare (ns : option pseg) (path : list pseg) : bool :=
  (match ns with Some p => seg_bare p | None => true end) && forallb seg_bare path.
Fixpoint acanonical (a : aitem) : bool :=
  match a with
  | AText _ => true
  | AVar w1 _ w2 fm => is_nil w1 && is_nil w2 && match fm with None => true | Some _ => false end
  | AComp w1 _ w2 kids a b c => is_nil w1 && is_nil w2 && is_nil a && is_nil b && is_nil c && forallb acanonical kids
  | ARef ns path => kp_bare ns path
  end.
Definition rarg_canonical (a : rarg) : bool :=
  match a with
  | RAStr its => forallb acanonical its
  | RALit (LStr _) => false
  | RALit _ => true
  end.
Fixpoint canonical (i : ritem) : bool :=
  match i with
  | RText _ => true
  | RVar w1 _ w2 fm => is_nil w1 && is_nil w2 && match fm with None => true | Some _ => false end
  | RComp w1 _ w2 kids a b c => is_nil w1 && is_nil w2 && is_nil a && is_nil b && is_nil c && forallb canonical kids
  | RRef ns path => kp_bare ns path
  | RRefA ns path args => kp_bare ns path && nonnil args && forallb (fun ka => rarg_canonical (snd ka)) args
  end.

Lemma is_nil_eq s : is_nil s = true -> s = [].
Proof. destruct s; [reflexivity | discriminate]. Qed.
Lemma seg_bare_pad p : seg_bare p = true -> pad p = seg_name p.
Proof.
  destruct p as [[l n] r]. cbn [seg_bare pad seg_name]. intros H. apply andb_true_iff in H as [H1 H2].
  rewrite (is_nil_eq _ H1), (is_nil_eq _ H2). cbn [app]. apply app_nil_r.
Qed.
Lemma bare_keypath ns path : kp_bare ns path = true ->
  keypath_text ns path
  = (match option_map seg_name ns with Some n => n ++ [c_colon] | None => [] end) ++ join_dot (map seg_name path).
Proof.
  unfold kp_bare, keypath_text. intros H. apply andb_true_iff in H as [H1 H2]. f_equal.
  - destruct ns as [p|]; [|reflexivity]. cbn [option_map]. rewrite (seg_bare_pad p H1). reflexivity.
  - f_equal. apply map_ext_in. intros p Hp. apply seg_bare_pad. rewrite forallb_forall in H2. apply H2. exact Hp.
Qed.

Lemma xprint_ato_x : forall a, acanonical a = true -> xprint (ato_x a) = aprint a.
Proof.
  apply (aitem_ind2 (fun a => acanonical a = true -> xprint (ato_x a) = aprint a)).
  - reflexivity.
  - intros w1 n w2 fm H. cbn [acanonical] in H. apply andb_true_iff in H as [H H3]. apply andb_true_iff in H as [H1 H2].
    destruct fm; [discriminate|]. rewrite (is_nil_eq _ H1), (is_nil_eq _ H2). cbn [ato_x xprint aprint print app]. rewrite ?app_nil_r. reflexivity.
  - intros w1 n w2 kids a b c IH H. cbn [acanonical] in H.
    repeat (apply andb_true_iff in H as [H ?]).
    repeat match goal with Hn : is_nil _ = true |- _ => apply is_nil_eq in Hn; subst end.
    cbn [ato_x xprint aprint]. unfold open_tag, close_tag. cbn [app]. f_equal. rewrite <- !app_assoc. f_equal. cbn [app]. f_equal.
    f_equal. rewrite map_map.
    match goal with Hk : forallb acanonical kids = true |- _ => rename Hk into Hkids end.
    clear -IH Hkids. induction IH as [|k r Hk Hr IHr]; [reflexivity|].
    cbn [forallb] in Hkids. apply andb_true_iff in Hkids as [Hc Hcr]. cbn [map concat]. rewrite (Hk Hc), (IHr Hcr). reflexivity.
  - intros ns path H. cbn [acanonical] in H. cbn [ato_x xprint aprint]. unfold print_ref. rewrite (bare_keypath ns path H).
    cbn [app]. rewrite <- app_assoc. reflexivity.
Qed.
Lemma xprint_ato_list l : forallb acanonical l = true -> concat (map xprint (map ato_x l)) = aprint_list l.
Proof.
  induction l as [|a r IH]; intros H; [reflexivity|]. cbn [forallb] in H. apply andb_true_iff in H as [Ha Hr].
  unfold aprint_list in *. cbn [map concat]. rewrite (xprint_ato_x a Ha), (IH Hr). reflexivity.
Qed.

Lemma join_with_cons2 sep x (l : list str) : l <> [] -> join_with sep (x :: l) = x ++ sep ++ join_with sep l.
Proof. destruct l; [congruence | reflexivity]. Qed.
Definition xmember (ka : str * xarg) : str := c_quote :: fst ka ++ c_quote :: c_colon :: 32 :: xprint_arg (snd ka).
Lemma xmember_eq (ka : str * rarg) : rarg_canonical (snd ka) = true ->
  xmember (fst ka, xarg_of (snd ka)) = member_text (fst ka, value_text (snd ka)).
Proof.
  intros H. unfold xmember, member_text. cbn [fst snd]. do 6 f_equal. destruct (snd ka) as [its|l]; cbn [xarg_of xprint_arg value_text rarg_canonical] in *.
  - rewrite (xprint_ato_list _ H). reflexivity.
  - destruct l; try discriminate; reflexivity.
Qed.
Lemma join_members (args : list (str * rarg)) : forallb (fun ka => rarg_canonical (snd ka)) args = true ->
  join_with [c_comma; 32] (map xmember (map (fun ka : str * rarg => (fst ka, xarg_of (snd ka))) args))
  = members_text (args_text args).
Proof.
  induction args as [|ka r IH]; intros H; [reflexivity|]. cbn [forallb] in H. apply andb_true_iff in H as [Ha Hr].
  cbn [map args_text]. fold (args_text r). rewrite (xmember_eq ka Ha).
  destruct r as [|kb r'].
  - reflexivity.
  - set (r := kb :: r') in *. rewrite join_with_cons2 by (unfold r; discriminate).
    rewrite members_text_cons2 by (unfold r; discriminate). rewrite (IH Hr). reflexivity.
Qed.

Theorem xprint_canonical_item : forall i, canonical i = true -> xprint (to_x i) = rprint i.
Proof.
  apply (ritem_ind2 (fun i => canonical i = true -> xprint (to_x i) = rprint i)).
  - reflexivity.
  - intros w1 n w2 fm H. cbn [canonical] in H. apply andb_true_iff in H as [H H3]. apply andb_true_iff in H as [H1 H2].
    destruct fm; [discriminate|]. rewrite (is_nil_eq _ H1), (is_nil_eq _ H2). cbn [to_x xprint rprint print app]. rewrite ?app_nil_r. reflexivity.
  - intros w1 n w2 kids a b c IH H. cbn [canonical] in H.
    repeat (apply andb_true_iff in H as [H ?]).
    repeat match goal with Hn : is_nil _ = true |- _ => apply is_nil_eq in Hn; subst end.
    cbn [to_x xprint rprint]. unfold open_tag, close_tag. cbn [app]. f_equal. rewrite <- !app_assoc. f_equal. cbn [app]. f_equal.
    f_equal. rewrite map_map.
    match goal with Hk : forallb canonical kids = true |- _ => rename Hk into Hkids end.
    clear -IH Hkids. induction IH as [|k r Hk Hr IHr]; [reflexivity|].
    cbn [forallb] in Hkids. apply andb_true_iff in Hkids as [Hc Hcr]. cbn [map concat]. rewrite (Hk Hc), (IHr Hcr). reflexivity.
  - intros ns path H. cbn [canonical] in H. cbn [to_x xprint rprint]. unfold print_ref. rewrite (bare_keypath ns path H).
    cbn [app]. rewrite <- app_assoc. reflexivity.
  - intros ns path args H. cbn [canonical] in H. apply andb_true_iff in H as [H Ha]. apply andb_true_iff in H as [Hk Hne].
    cbn [to_x xprint rprint]. unfold print_refa. rewrite (bare_keypath ns path Hk).
    pose proof (join_members args Ha) as Hj.
    destruct args as [|ka r]; [discriminate|].
    cbn [map] in Hj |- *.
    match goal with |- context [join_with ?sep (?x :: map ?f ?l)] =>
      change (join_with sep (x :: map f l)) with (join_with [c_comma; 32] (xmember (fst ka, xarg_of (snd ka)) :: map xmember l)) end.
    rewrite Hj. unfold obj_text. cbn [app]. rewrite <- !app_assoc. cbn [app]. rewrite <- ?app_assoc. reflexivity.
Qed.

Theorem xprint_canonical items : forallb canonical items = true -> xprint_list (map to_x items) = rprint_list items.
Proof.
  induction items as [|i r IH]; intros H; [reflexivity|]. cbn [forallb] in H. apply andb_true_iff in H as [Hi Hr].
  unfold xprint_list, rprint_list in *. cbn [map concat]. rewrite (xprint_canonical_item i Hi), (IH Hr). reflexivity.
Qed.

(** the parser statement for every source of the full AST that is the image of a well-formed,
    unpadded, formatter-less stage-1 source *)
Theorem parse_args_partial idc items v :
  ritems_wfb idc items = true -> forallb plain items = true -> forallb canonical items = true ->
  parse_top idc json_args_model true (xprint_list (map to_x items)) = Ok v -> XRep v (map to_x items).
Proof.
  intros W P C H. rewrite (xprint_canonical items C) in H.
  destruct (roundtrip_ref_model idc items W) as (v' & Ev & R). rewrite Ev in H. inversion H; subst.
  apply (Rep_XRep idc); assumption.
Qed.
