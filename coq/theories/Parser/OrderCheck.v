(** Executable correspondence predicate for C10: evaluated on harness-generated case files. *)
From Coq Require Import List NArith Bool Arith.
Import ListNotations.
From LI Require Import Base.StrOps.
From LI Require Import Parser.Order.
Open Scope N_scope.

(** implementation result of one run on one unit: the observables, or an error: code (1 duplicate key,
    2 ExplicitDefaultInDefault, 3 SubKeyMissmatch, 4 RecursiveForeignKey, 5 MissingForeignKey, 6 InvalidForeignKey, anything
    else = not modelled) with, for the foreign-key errors, the locale index, the key path and the target the diagnostic names *)
Definition errinfo := (N * N * path * path)%type.
Definition result := (out + errinfo)%type.

Record case := mk_case {
  c_names : list str;               (* the locales' names, default first (the registered foreign keys are walked by name) *)
  c_A : list (list (str * jv));     (* the unit's files (default locale first), members in file order A *)
  c_B : list (list (str * jv));     (* the same content, members in file order B (possibly another file format) *)
  c_implA : result;
  c_implB : result }.

Fixpoint list_eqb {A} (eqb : A -> A -> bool) (x y : list A) : bool :=
  match x, y with
  | [], [] => true
  | a :: r, b :: t => eqb a b && list_eqb eqb r t
  | _, _ => false
  end.
Definition entry_eqb (a b : path * N) : bool := path_eqb (fst a) (fst b) && (snd a =? snd b).
Definition warning_eqb (a b : warning) : bool :=
  match a, b with
  | WMissing i p, WMissing j q | WSurplus i p, WSurplus j q => (i =? j) && path_eqb p q
  | _, _ => false
  end.
Definition out_eqb (a b : out) : bool :=
  list_eqb (list_eqb entry_eqb) (o_lists a) (o_lists b)
  && list_eqb (list_eqb str_eqb) (o_tables a) (o_tables b)
  && list_eqb warning_eqb (o_warnings a) (o_warnings b).

Definition err_info (e : err) : errinfo :=
  match e with
  | EDuplicateKey => (1, 0, [], [])
  | EExplicitDefaultInDefault => (2, 0, [], [])
  | ESubKeyMissmatch => (3, 0, [], [])
  | ERecursiveFK li p => (4, li, p, [])
  | EMissingFK li p t => (5, li, p, t)
  | EInvalidFK li p t => (6, li, p, t)
  | EUnmodelledFK => (99, 0, [], [])
  end.
Definition model_result (names : list str) (files : list (list (str * jv))) : result :=
  match run_unit names files with inl o => inl o | inr e => inr (err_info e) end.
Definition errinfo_eqb (a b : errinfo) : bool :=
  let '(ca, la, pa, ta) := a in let '(cb, lb, pb, tb) := b in
  (ca =? cb) && (la =? lb) && path_eqb pa pb && path_eqb ta tb.
Definition result_eqb (a b : result) : bool :=
  match a, b with
  | inl x, inl y => out_eqb x y
  | inr x, inr y => errinfo_eqb x y
  | _, _ => false
  end.
Definition code_of (r : result) : N := match r with inl _ => 0 | inr (c, _, _, _) => c end.
Definition modelled (r : result) : bool := match r with inl _ => true | inr (c, _, _, _) => (1 <=? c) && (c <=? 6) end.

Definition same_content (a b : list (list (str * jv))) : bool :=
  list_eqb (fun x y => jv_eqb (JObj x) (JObj y)) a b.

(** the property on two runs of the same content: nothing observable differs *)
Definition spec_C10 (a b : list (list (str * jv))) (ra rb : result) : bool :=
  negb (same_content a b) || result_eqb ra rb.

(** 0 = agree and spec holds; 1 = outside the modelled domain; 2 = implementation differs from the model (spec holds);
    3 = the two runs differ although the content is the same *)
Definition check (c : case) : N :=
  if negb (same_content (c_A c) (c_B c)) then 1
  else if negb (spec_C10 (c_A c) (c_B c) (c_implA c) (c_implB c)) then 3
  else if negb (modelled (c_implA c) && modelled (c_implB c)) then 1
  else if negb (modelled (model_result (c_names c) (c_A c))) then 1
  else if negb (result_eqb (model_result (c_names c) (c_A c)) (c_implA c) && result_eqb (model_result (c_names c) (c_B c)) (c_implB c)) then 2
  else 0.
