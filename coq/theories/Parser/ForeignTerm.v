(** Termination of foreign-key resolution (property C09: "never loops forever").
    [resolve] (Parser/Foreign.v) is fuelled; here the fuel is shown adequate: with
    N = the number of values of the project and D = the largest nesting depth of a value,
    every fuel >= D + N * (D + 1) resolves every value of the project without [OutOfFuel], under every
    reachable in-progress stack (pairwise distinct entries naming existing values).  The inherits
    walk never exhausts the fuel [S (length inherits)] it is given, and [look] restarts at most once
    (the walk never returns a locale whose value is an explicit default, except the default locale). *)
From Coq Require Import List NArith ZArith Bool Arith Lia.
Import ListNotations.
From LI Require Import Base.StrOps Base.StrLemmas Parser.Parse Parser.Json Parser.Reduce Parser.Source Parser.ParseCheck
  Parser.ReduceProofs Parser.Foreign Parser.ForeignProofs Parser.ForeignCheck Parser.ForeignSound Parser.ForeignSound2
  Parser.ForeignBridge1 Parser.ForeignBridge2.
Open Scope N_scope.

(** * nesting depth of a value *)
Fixpoint pv_depth (v : pv) : nat :=
  match v with
  | PLit _ | PVar _ _ => 1
  | PComp _ i => S (pv_depth i)
  | PBloc l => S ((fix go (l : list pv) : nat := match l with [] => 0 | x :: r => Nat.max (pv_depth x) (go r) end) l)
  | PForeign _ _ args =>
      S ((fix go (l : list (str * pv)) : nat := match l with [] => 0 | (_, a) :: r => Nat.max (pv_depth a) (go r) end) args)
  end%nat.
Definition depth_list (l : list pv) : nat := fold_right (fun x acc => Nat.max (pv_depth x) acc) 0%nat l.
Definition depth_args (l : list (str * pv)) : nat := fold_right (fun ka acc => Nat.max (pv_depth (snd ka)) acc) 0%nat l.
Lemma pv_depth_bloc l : pv_depth (PBloc l) = S (depth_list l).
Proof. reflexivity. Qed.
Lemma pv_depth_foreign ns p args : pv_depth (PForeign ns p args) = S (depth_args args).
Proof.
  cbn [pv_depth]. f_equal. induction args as [|[k a] r IH]; [reflexivity|]. cbn [depth_args fold_right snd]. rewrite IH. reflexivity.
Qed.
Lemma pv_depth_pos v : (1 <= pv_depth v)%nat.
Proof. destruct v; cbn [pv_depth]; lia. Qed.
Lemma depth_list_in x l : In x l -> (pv_depth x <= depth_list l)%nat.
Proof. induction l as [|y r IH]; intros H; [destruct H|]. cbn [depth_list fold_right]. destruct H as [->|H]; [lia | specialize (IH H); unfold depth_list in IH; lia]. Qed.
Lemma depth_args_in k a l : In (k, a) l -> (pv_depth a <= depth_args l)%nat.
Proof.
  induction l as [|y r IH]; intros H; [destruct H|]. cbn [depth_args fold_right]. destruct H as [->|H]; [cbn [snd]; lia|].
  specialize (IH H). unfold depth_args in IH. lia.
Qed.

(** * the inherits walk: its fuel is adequate *)
Section Walk.
Variable vals : values.
Variable dflt : str.
Variable inherits : list (str * str).

(** [walk] with the fuel exhaustion made visible *)
Fixpoint walk_opt (fuel : nat) (visited : list str) (cur : str) (target : keypath) : option str :=
  match fuel with
  | O => None
  | S f =>
      match assoc cur inherits with
      | Some next =>
          if mem_str next visited then Some dflt
          else match get_value_at vals next target with
               | Some NDefault | None => walk_opt f (next :: visited) next target
               | Some _ => Some next
               end
      | None => Some dflt
      end
  end.
Lemma walk_opt_sound target : forall fuel visited cur x,
  walk_opt fuel visited cur target = Some x -> walk vals dflt inherits fuel visited cur target = x.
Proof.
  induction fuel as [|f IH]; intros visited cur x H; [discriminate|]. cbn [walk_opt Foreign.walk] in *.
  destruct (assoc cur inherits) as [next|]; [|inversion H; reflexivity].
  destruct (mem_str next visited); [inversion H; reflexivity|].
  destruct (get_value_at vals next target) as [[T| |sub]|]; try (inversion H; reflexivity); apply IH; exact H.
Qed.

Lemma mem_str_false_not_in k l : mem_str k l = false -> ~ In k l.
Proof.
  unfold mem_str. intros H Hin. assert (E : existsb (str_eqb k) l = true) by (apply existsb_exists; exists k; split; [exact Hin | apply str_eqb_refl]).
  congruence.
Qed.
Lemma assoc_some_key {V} k (m : list (str * V)) v : assoc k m = Some v -> In k (map fst m).
Proof. intros H. destruct (assoc_in _ _ _ H) as (k' & Hin & ->). apply in_map_iff. exists (k, v). auto. Qed.

(** the locales already left behind are pairwise distinct keys of [inherits] *)
Lemma walk_opt_adequate target : forall fuel rest cur,
  NoDup (cur :: rest) -> incl rest (map fst inherits) -> (length inherits < fuel + length rest)%nat ->
  walk_opt fuel (cur :: rest) cur target <> None.
Proof.
  induction fuel as [|f IH]; intros rest cur Hnd Hincl Hlen.
  - exfalso. inversion Hnd; subst. pose proof (NoDup_incl_length H2 Hincl) as Hl. rewrite map_length in Hl. cbn in Hlen. lia.
  - cbn [walk_opt]. destruct (assoc cur inherits) as [next|] eqn:Ea; [|discriminate].
    destruct (mem_str next (cur :: rest)) eqn:Em; [discriminate|].
    assert (Hrec : walk_opt f (next :: cur :: rest) next target <> None).
    { apply IH.
      - constructor; [apply mem_str_false_not_in; exact Em | exact Hnd].
      - intros x [<-|Hx]; [eapply assoc_some_key; exact Ea | apply Hincl; exact Hx].
      - cbn [length]. lia. }
    destruct (get_value_at vals next target) as [[T| |sub]|]; try discriminate; exact Hrec.
Qed.

(** the fuel [S (length inherits)] that [look] gives the walk is never exhausted *)
Theorem walk_fuel_adequate L target :
  exists x, walk_opt (S (length inherits)) [L] L target = Some x /\ walk vals dflt inherits (S (length inherits)) [L] L target = x.
Proof.
  destruct (walk_opt (S (length inherits)) [L] L target) as [x|] eqn:E.
  - exists x. split; [reflexivity | apply walk_opt_sound; exact E].
  - exfalso. revert E. apply walk_opt_adequate; [repeat constructor; intros [] | intros x [] | cbn [length]; lia].
Qed.
End Walk.

(** * the resolver *)
Section Resolve.
Variable vals : values.
Variable dflt : str.
Variable inherits : list (str * str).
Notation resolve := (resolve vals dflt inherits).
Notation look := (look vals dflt inherits).

Definition stack_key := (str * keypath)%type.
(** [keys]: a finite list holding every (locale, key path) that names a value; [D]: a bound on their depth *)
Variable keys : list stack_key.
Variable D : nat.
Hypothesis keys_complete : forall L t T, get_value_at vals L t = Some (NVal T) -> In (L, t) keys.
Hypothesis depth_bound : forall L t T, get_value_at vals L t = Some (NVal T) -> (pv_depth T <= D)%nat.

(** a reachable in-progress stack: pairwise distinct entries among the keys *)
Definition stack_ok (stack : list stack_key) : Prop := NoDup stack /\ incl stack keys.

Lemma opt_str_eqb'_eq a b : opt_str_eqb' a b = true -> a = b.
Proof. destruct a, b; cbn [opt_str_eqb']; intros H; try discriminate; [apply str_eqb_eq in H; subst|]; reflexivity. Qed.
Lemma strs_eqb'_eq a b : strs_eqb' a b = true -> a = b.
Proof.
  revert b; induction a as [|x a IH]; destruct b as [|y b]; cbn [strs_eqb']; intros H; try discriminate; [reflexivity|].
  apply andb_true_iff in H as [H1 H2]. apply str_eqb_eq in H1. apply IH in H2. subst. reflexivity.
Qed.
Lemma kp_eqb_refl' p : kp_eqb p p = true.
Proof.
  destruct p as [ns path]. unfold kp_eqb. cbn [fst snd]. apply andb_true_iff. split.
  - destruct ns; cbn [opt_str_eqb']; [apply str_eqb_refl | reflexivity].
  - induction path as [|x r IH]; [reflexivity|]. cbn [strs_eqb']. rewrite str_eqb_refl. exact IH.
Qed.
Lemma on_stack_false_not_in L t stack : on_stack L t stack = false -> ~ In (L, t) stack.
Proof.
  unfold on_stack. intros H Hin.
  assert (E : existsb (fun e : str * keypath => str_eqb (fst e) L && kp_eqb (snd e) t) stack = true).
  { apply existsb_exists. exists (L, t). split; [exact Hin|]. cbn [fst snd]. rewrite str_eqb_refl, kp_eqb_refl'. reflexivity. }
  congruence.
Qed.

Definition no_oof {A} (r : res A) : Prop := r <> OutOfFuel.
Lemma bind_no_oof {A B} (r : res A) (f : A -> res B) : no_oof r -> (forall a, r = Ok a -> no_oof (f a)) -> no_oof (bind r f).
Proof. unfold no_oof. intros H1 H2. destruct r; cbn [bind]; try discriminate; [apply H2; reflexivity | congruence]. Qed.

Lemma resolve_args_no_oof (rec : list stack_key -> str -> pv -> res pv) stack L args :
  (forall k a, In (k, a) args -> no_oof (rec stack L a)) -> no_oof (resolve_args rec stack L args).
Proof.
  induction args as [|[k a] t IH]; intros H; [discriminate|]. cbn [resolve_args fold_right]. fold (resolve_args rec stack L t).
  apply bind_no_oof; [apply (H k a); left; reflexivity|]. intros a' _. apply bind_no_oof; [|intros; discriminate].
  apply IH. intros k' a0 Hin. apply (H k' a0). right. exact Hin.
Qed.

(** the required fuel for a value of depth at most [d] under [stack] *)
Definition need (d : nat) (stack : list stack_key) : nat := (d + (length keys - length stack) * (D + 1))%nat.

Lemma look_default rec n stack target args A L :
  get_value_at vals L target = Some NDefault -> str_eqb L dflt = false ->
  look rec (S n) stack target args A L = look rec n stack target args A (walk vals dflt inherits (S (length inherits)) [L] L target).
Proof. intros E1 E2. cbn [Foreign.look]. rewrite E1, E2. reflexivity. Qed.

Lemma need_push K s D' d f : (S s <= K)%nat -> (1 <= d)%nat -> (d + (K - s) * (D' + 1) <= S f)%nat ->
  (D' + (K - S s) * (D' + 1) <= f)%nat.
Proof.
  intros H1 H2 H3. replace (K - s)%nat with (S (K - S s)) in H3 by lia. rewrite Nat.mul_succ_l in H3. lia.
Qed.

Theorem resolve_no_oof : forall fuel stack L v d,
  stack_ok stack -> (pv_depth v <= d)%nat -> (need d stack <= fuel)%nat -> no_oof (resolve fuel stack L v).
Proof.
  induction fuel as [|f IH]; intros stack L v d Hs Hd Hf.
  - pose proof (pv_depth_pos v). unfold need in Hf. nia.
  - destruct v as [l|k fm|k i|l|ns p args]; cbn [Foreign.resolve]; try discriminate.
    + apply bind_no_oof; [|intros; discriminate]. cbn [pv_depth] in Hd.
      apply (IH stack L i (d - 1)%nat Hs); [lia | unfold need in *; nia].
    + rewrite pv_depth_bloc in Hd. apply bind_no_oof; [|intros; discriminate].
      assert (Hall : forall x, In x l -> no_oof (resolve f stack L x)).
      { intros x Hx. pose proof (depth_list_in x l Hx). apply (IH stack L x (d - 1)%nat Hs); [lia | unfold need in *; nia]. }
      clear -Hall. induction l as [|x t IHl]; [discriminate|]. cbn [fold_right].
      apply bind_no_oof; [apply Hall; left; reflexivity|]. intros x' _. apply bind_no_oof; [|intros; discriminate].
      apply IHl. intros y Hy. apply Hall. right. exact Hy.
    + (* a foreign key *)
      rewrite pv_depth_foreign in Hd.
      assert (Hargs : forall st, stack_ok st -> length st = length stack -> forall L', no_oof (resolve_args (resolve f) st L' args)).
      { intros st Hst Hlen L'. apply resolve_args_no_oof. intros k a Hin. pose proof (depth_args_in k a args Hin).
        apply (IH st L' a (d - 1)%nat Hst); [lia | unfold need in *; rewrite Hlen; nia]. }
      (* one lookup in a locale: no restart needed *)
      assert (Hat : forall L', (forall nd, get_value_at vals L' (ns, p) = Some nd -> nd <> NDefault \/ str_eqb L' dflt = true) ->
                    forall n, no_oof (look (resolve f) n stack (ns, p) args L L')).
      { intros L' Hnd n. destruct n as [|n]; cbn [Foreign.look];
          destruct (get_value_at vals L' (ns, p)) as [[T| |sub]|] eqn:Eg; try discriminate.
        all: try (destruct (Hnd _ eq_refl) as [Hx|Hx]; [congruence | rewrite Hx; discriminate]).
        all: try (apply bind_no_oof; [apply (Hargs stack Hs eq_refl) | intros; discriminate]).
        all: destruct (on_stack L' (ns, p) stack) eqn:Eo; [discriminate|].
        all: assert (Hs' : stack_ok ((L', (ns, p)) :: stack))
               by (destruct Hs as [Hn Hi]; split; [constructor; [apply on_stack_false_not_in; exact Eo | exact Hn]
                    | intros x [<-|Hx]; [eapply keys_complete; exact Eg | apply Hi; exact Hx]]).
        all: assert (Hlen : (length ((L', (ns, p)) :: stack) <= length keys)%nat)
               by (destruct Hs' as [Hn Hi]; apply (NoDup_incl_length Hn Hi)).
        all: apply bind_no_oof;
               [apply (IH _ L' T D Hs'); [eapply depth_bound; exact Eg | unfold need in *; cbn [length] in *;
                  apply (need_push (length keys) (length stack) D d f); [exact Hlen | lia | exact Hf]]
               | intros T' _; apply bind_no_oof; [apply (Hargs stack Hs eq_refl) | intros; discriminate]]. }
      (* the lookup of [resolve]: at most one restart *)
      assert (Hcase : (forall nd, get_value_at vals L (ns, p) = Some nd -> nd <> NDefault \/ str_eqb L dflt = true)
                      \/ (get_value_at vals L (ns, p) = Some NDefault /\ str_eqb L dflt = false)).
      { destruct (get_value_at vals L (ns, p)) as [[T| |sub]|].
        - left. intros nd E. left. inversion E. discriminate.
        - destruct (str_eqb L dflt) eqn:Ed; [left; intros nd E; right; reflexivity | right; split; reflexivity].
        - left. intros nd E. left. inversion E. discriminate.
        - left. intros nd E. discriminate. }
      destruct Hcase as [Hc|[Eg Ed]].
      * apply Hat. exact Hc.
      * rewrite (look_default (resolve f) 1 stack (ns, p) args L L Eg Ed).
        apply Hat. intros nd End.
        destruct (walk_spec vals dflt inherits (ns, p) (S (length inherits)) [L] L) as [Hw|(nd' & Hn & Hne)].
        -- right. rewrite Hw. apply str_eqb_refl.
        -- left. rewrite End in Hn. inversion Hn; subst. exact Hne.
Qed.
End Resolve.

(** * the bound of a project *)
Definition leaf_value (e : reg_entry) : option pv := let '(_, _, _, n) := e in match n with NVal v => Some v | _ => None end.
Definition leaf_key (e : reg_entry) : str * keypath := let '(ns, l, p, _) := e in (l, (ns, p)).
Definition value_leaves (vals : values) : list reg_entry :=
  filter (fun e => match leaf_value e with Some _ => true | None => false end) (all_leaves vals).
(** N: the number of values; D: the largest depth of a value *)
Definition value_count (vals : values) : nat := length (value_leaves vals).
Definition value_depth (vals : values) : nat :=
  fold_right (fun e acc => match leaf_value e with Some v => Nat.max (pv_depth v) acc | None => acc end) 0%nat (all_leaves vals).
Definition resolve_bound (vals : values) : nat := (value_depth vals + value_count vals * (value_depth vals + 1))%nat.

Lemma lookup_in_leaves vals L ns p T : get_value_at vals L (ns, p) = Some (NVal T) -> In (ns, L, p, NVal T) (all_leaves vals).
Proof.
  intros H. pose proof (get_value_at_lfind vals L ns p (NVal T) H eq_refl) as Hf. unfold lfind in Hf.
  apply find_some in Hf as [Hin _]. exact Hin.
Qed.
Lemma value_depth_in vals e v : In e (all_leaves vals) -> leaf_value e = Some v -> (pv_depth v <= value_depth vals)%nat.
Proof.
  unfold value_depth. induction (all_leaves vals) as [|x r IH]; intros Hin Hv; [destruct Hin|].
  cbn [fold_right]. destruct Hin as [->|Hin].
  - rewrite Hv. lia.
  - specialize (IH Hin Hv). destruct (leaf_value x); lia.
Qed.

Theorem project_keys_complete vals L t T : get_value_at vals L t = Some (NVal T) -> In (L, t) (map leaf_key (value_leaves vals)).
Proof.
  destruct t as [ns p]. intros H. apply in_map_iff. exists (ns, L, p, NVal T). split; [reflexivity|].
  unfold value_leaves. apply filter_In. split; [apply lookup_in_leaves; exact H | reflexivity].
Qed.
Theorem project_depth_bound vals L t T : get_value_at vals L t = Some (NVal T) -> (pv_depth T <= value_depth vals)%nat.
Proof.
  destruct t as [ns p]. intros H. apply (value_depth_in vals (ns, L, p, NVal T)); [apply lookup_in_leaves; exact H | reflexivity].
Qed.

(** every value of the project resolves without running out of fuel, from the empty stack ... *)
Theorem resolve_terminates vals dflt inherits fuel L v :
  (pv_depth v <= value_depth vals)%nat -> (resolve_bound vals <= fuel)%nat ->
  resolve vals dflt inherits fuel [] L v <> OutOfFuel.
Proof.
  intros Hd Hf.
  apply (resolve_no_oof vals dflt inherits (map leaf_key (value_leaves vals)) (value_depth vals)
           (project_keys_complete vals) (project_depth_bound vals) fuel [] L v (value_depth vals)).
  - split; [constructor | intros x []].
  - exact Hd.
  - unfold need, resolve_bound, value_count in *. rewrite map_length. cbn [length]. lia.
Qed.

(** ... and as the driver runs it: the value's own entry on the stack *)
Theorem resolve_terminates_own vals dflt inherits fuel ns L path v :
  In (ns, L, path, NVal v) (all_leaves vals) -> (resolve_bound vals <= fuel)%nat ->
  resolve vals dflt inherits fuel [(L, (ns, path))] L v <> OutOfFuel.
Proof.
  intros Hin Hf.
  pose proof (value_depth_in vals (ns, L, path, NVal v) v Hin eq_refl) as Hd.
  apply (resolve_no_oof vals dflt inherits ((L, (ns, path)) :: map leaf_key (value_leaves vals)) (value_depth vals)
           (fun L0 t T H => or_intror (project_keys_complete vals L0 t T H)) (project_depth_bound vals)
           fuel [(L, (ns, path))] L v (value_depth vals)).
  - split; [repeat constructor; intros [] | intros x [<-|[]]; left; reflexivity].
  - exact Hd.
  - unfold need, resolve_bound, value_count in *. cbn [length]. rewrite map_length. lia.
Qed.

(** [final_value] (fuel 200) never runs out of fuel on a project whose bound is at most 200 *)
Corollary final_value_terminates vals dflt inherits ns L path n :
  In (ns, L, path, n) (all_leaves vals) -> (resolve_bound vals <= 200)%nat ->
  final_value vals dflt inherits ns L path n <> OutOfFuel.
Proof.
  intros Hin Hb. destruct n as [v| |sub]; cbn [final_value]; try discriminate.
  pose proof (resolve_terminates_own vals dflt inherits 200 ns L path v Hin Hb) as Hr.
  destruct (resolve vals dflt inherits 200 [(L, (ns, path))] L v) as [r| | | |] eqn:E; cbn [bind]; try discriminate; [|congruence].
  destruct (resolve_then_reduce _ _ _ _ _ _ _ _ E) as (r' & Er & _). rewrite Er. discriminate.
Qed.

(** * [look] restarts at most once: with the two rounds [resolve] gives it, it never runs out of rounds *)
Theorem look_no_oof vals dflt inherits (rec : list (str * keypath) -> str -> pv -> res pv) stack target args A L :
  (forall st l v, rec st l v <> OutOfFuel) ->
  look vals dflt inherits rec 2 stack target args A L <> OutOfFuel.
Proof.
  intros Hrec.
  assert (Hargs : forall st L', no_oof (resolve_args rec st L' args)).
  { intros st L'. apply resolve_args_no_oof. intros k a _. apply Hrec. }
  assert (Hat : forall L', (forall nd, get_value_at vals L' target = Some nd -> nd <> NDefault \/ str_eqb L' dflt = true) ->
                forall n, no_oof (look vals dflt inherits rec n stack target args A L')).
  { intros L' Hnd n. destruct n as [|n]; cbn [Foreign.look];
      destruct (get_value_at vals L' target) as [[T| |sub]|] eqn:Eg; try discriminate.
    all: try (destruct (Hnd _ eq_refl) as [Hx|Hx]; [congruence | rewrite Hx; discriminate]).
    all: try (apply bind_no_oof; [apply Hargs | intros; discriminate]).
    all: destruct (on_stack L' target stack); [discriminate|].
    all: apply bind_no_oof; [apply Hrec | intros T' _; apply bind_no_oof; [apply Hargs | intros; discriminate]]. }
  assert (Hcase : (forall nd, get_value_at vals L target = Some nd -> nd <> NDefault \/ str_eqb L dflt = true)
                  \/ (get_value_at vals L target = Some NDefault /\ str_eqb L dflt = false)).
  { destruct (get_value_at vals L target) as [[T| |sub]|].
    - left. intros nd E. left. inversion E. discriminate.
    - destruct (str_eqb L dflt) eqn:Ed; [left; intros nd E; right; reflexivity | right; split; reflexivity].
    - left. intros nd E. left. inversion E. discriminate.
    - left. intros nd E. discriminate. }
  destruct Hcase as [Hc|[Eg Ed]].
  - apply Hat. exact Hc.
  - rewrite (look_default vals dflt inherits rec 1 stack target args A L Eg Ed).
    apply Hat. intros nd End.
    destruct (walk_spec vals dflt inherits target (S (length inherits)) [L] L) as [Hw|(nd' & Hn & Hne)].
    + right. rewrite Hw. apply str_eqb_refl.
    + left. rewrite End in Hn. inversion Hn; subst. exact Hne.
Qed.

Lemma project_keys_depth vals L t T : get_value_at vals L t = Some (NVal T) ->
  In (L, t) (map leaf_key (value_leaves vals)) /\ (pv_depth T <= value_depth vals)%nat.
Proof. intros H. exact (conj (project_keys_complete vals L t T H) (project_depth_bound vals L t T H)). Qed.
