(** Bridge between the project files of a correspondence case and the model's [values] (property C06),
    part 2: leaf tables.  A lookup that ends on a leaf is found in the leaf table ([all_leaves] of the
    values, [all_jleaves] of the files), as the FIRST entry with that key; the entries the driver
    collects are looked up by [find_entry] accordingly; [pieces_eqb] is reflexive. *)
From Coq Require Import List NArith ZArith Bool Arith Lia.
Import ListNotations.
From LI Require Import Base.StrOps Base.StrLemmas Parser.Parse Parser.Json Parser.Reduce Parser.Source Parser.ParseCheck
  Parser.RoundTrip2 Parser.Foreign Parser.ForeignCheck Parser.ForeignSound Parser.ForeignBridge1.
Open Scope N_scope.

(** * lists *)
Lemma find_app {A} (f : A -> bool) a b : find f (a ++ b) = match find f a with Some x => Some x | None => find f b end.
Proof. induction a as [|x a IH]; [reflexivity|]. cbn [app find]. destruct (f x); [reflexivity | exact IH]. Qed.
Lemma find_none_all {A} (f : A -> bool) l : (forall x, In x l -> f x = false) -> find f l = None.
Proof.
  induction l as [|x l IH]; intros H; [reflexivity|]. cbn [find]. rewrite (H x (or_introl eq_refl)).
  apply IH. intros y Hy. apply H. right. exact Hy.
Qed.
Lemma find_map {A B} (f : B -> bool) (g : A -> B) l : find f (map g l) = option_map g (find (fun x => f (g x)) l).
Proof. induction l as [|x l IH]; [reflexivity|]. cbn [map find]. destruct (f (g x)); [reflexivity | exact IH]. Qed.
Lemma find_ext {A} (f g : A -> bool) l : (forall x, f x = g x) -> find f l = find g l.
Proof. intros H. induction l as [|x l IH]; [reflexivity|]. cbn [find]. rewrite H, IH. reflexivity. Qed.
Lemma strs_eqb_app_head a x y : strs_eqb (a ++ x) (a ++ y) = strs_eqb x y.
Proof. induction a as [|c a IH]; [reflexivity|]. cbn [app strs_eqb]. rewrite str_eqb_refl. exact IH. Qed.
Lemma strs_eqb_refl' a : strs_eqb a a = true.
Proof. apply strs_eqb_eq. reflexivity. Qed.

(** * the leaf table of the files *)
Definition jis_leaf (j : jnode) : bool := match j with JObj _ => false | _ => true end.
Fixpoint jleaves (j : jnode) : list (list str * jnode) :=
  match j with
  | JObj ms =>
      (fix go (ms : list (str * jnode)) : list (list str * jnode) :=
         match ms with
         | [] => []
         | (k, j') :: r => map (fun qx : list str * jnode => (k :: fst qx, snd qx)) (jleaves j') ++ go r
         end) ms
  | _ => [([], j)]
  end.
Lemma jleaves_cons k j' r :
  jleaves (JObj ((k, j') :: r)) = map (fun qx : list str * jnode => (k :: fst qx, snd qx)) (jleaves j') ++ jleaves (JObj r).
Proof. reflexivity. Qed.
Definition jleaf_entry := (option str * str * list str * jnode)%type.
Definition all_jleaves (files : list jfile) : list jleaf_entry :=
  flat_map (fun f : jfile => let '(ns, l, ms) := f in
              map (fun qx : list str * jnode => (ns, l, fst qx, snd qx)) (jleaves (JObj ms))) files.

Lemma jleaves_member k j ms q x : In (k, j) ms -> In (q, x) (jleaves j) -> In (k :: q, x) (jleaves (JObj ms)).
Proof.
  induction ms as [|[k' j'] r IH]; intros Hin Hq; [destruct Hin|]. rewrite jleaves_cons. apply in_or_app.
  destruct Hin as [E|Hin].
  - inversion E; subst. left. apply in_map_iff. exists (q, x). split; [reflexivity | exact Hq].
  - right. apply IH; assumption.
Qed.

Lemma jlocale_get_leaf : forall p ms j, jlocale_get ms p = Some j -> jis_leaf j = true -> In (p, j) (jleaves (JObj ms)).
Proof.
  induction p as [|k rest IH]; intros ms j H Hl; [discriminate|]. cbn [jlocale_get] in H. destruct rest as [|k2 rest'].
  - destruct (assoc_in _ _ _ H) as (k' & Hin & ->). apply (jleaves_member k j ms [] j Hin).
    destruct j; try discriminate; left; reflexivity.
  - destruct (assoc k ms) as [[s| |l|sub]|] eqn:Ea; try discriminate.
    destruct (assoc_in _ _ _ Ea) as (k' & Hin & ->). apply (jleaves_member k (JObj sub) ms _ j Hin). apply IH; assumption.
Qed.

Lemma jfile_of_in files ns L ms : jfile_of files ns L = Some ms -> In (ns, L, ms) files.
Proof.
  unfold jfile_of. destruct (find (file_is ns L) files) as [[[ns' l'] ms']|] eqn:E; [|discriminate]. intros H. inversion H; subst.
  apply find_some in E as [Hin Hk]. unfold file_is in Hk. apply andb_true_iff in Hk as [H1 H2].
  apply opt_str_eqb_eq in H1. apply str_eqb_eq in H2. subst. exact Hin.
Qed.

(** a lookup in the files that ends on a leaf is in the leaf table of the files *)
Theorem jget_leaf_in files L ns p j : jget files L (ns, p) = Some j -> jis_leaf j = true -> In (ns, L, p, j) (all_jleaves files).
Proof.
  unfold jget. cbn [fst snd]. destruct (jfile_of files ns L) as [ms|] eqn:Ef; [|discriminate]. intros H Hl.
  apply jfile_of_in in Ef. unfold all_jleaves. apply in_flat_map. exists (ns, L, ms). split; [exact Ef|].
  apply in_map_iff. exists (p, j). split; [reflexivity | apply jlocale_get_leaf; assumption].
Qed.

(** * the leaf table of the values *)
Section NodeInd.
Variable P : node -> Prop.
Hypothesis HV : forall v, P (NVal v).
Hypothesis HD : P NDefault.
Hypothesis HS : forall m, Forall (fun kn => P (snd kn)) m -> P (NSub m).
Fixpoint node_ind2 (n : node) : P n :=
  match n with
  | NVal v => HV v
  | NDefault => HD
  | NSub m => HS m ((fix go (m : list (str * node)) : Forall (fun kn => P (snd kn)) m :=
                      match m with [] => Forall_nil _ | (k, n') :: r => Forall_cons (k, n') (node_ind2 n') (go r) end) m)
  end.
End NodeInd.

Definition nis_leaf (n : node) : bool := match n with NSub _ => false | _ => true end.
Lemma node_leaves_cons pfx k n' r :
  node_leaves pfx (NSub ((k, n') :: r)) = node_leaves (pfx ++ [k]) n' ++ node_leaves pfx (NSub r).
Proof. reflexivity. Qed.

Lemma node_leaves_prefix : forall n pfx q x, In (q, x) (node_leaves pfx n) -> exists q', q = pfx ++ q'.
Proof.
  apply (node_ind2 (fun n => forall pfx q x, In (q, x) (node_leaves pfx n) -> exists q', q = pfx ++ q')).
  - intros v pfx q x [E|[]]. inversion E; subst. exists []. rewrite app_nil_r. reflexivity.
  - intros pfx q x [E|[]]. inversion E; subst. exists []. rewrite app_nil_r. reflexivity.
  - intros m IH. induction IH as [|[k n'] r Hk Hr IHr]; intros pfx q x Hin; [destruct Hin|].
    rewrite node_leaves_cons in Hin. apply in_app_or in Hin as [Hin|Hin].
    + cbn [snd] in Hk. destruct (Hk _ _ _ Hin) as (q' & ->). exists (k :: q'). rewrite <- app_assoc. reflexivity.
    + exact (IHr _ _ _ Hin).
Qed.

Lemma kmap_find : forall p pfx m n, locale_get m p = Some n -> nis_leaf n = true ->
  find (fun qx : list str * node => strs_eqb (pfx ++ p) (fst qx)) (node_leaves pfx (NSub m)) = Some (pfx ++ p, n).
Proof.
  induction p as [|k rest IH]; intros pfx m n H Hl; [discriminate|].
  induction m as [|[k' n'] r IHm]; [destruct rest; discriminate|].
  rewrite node_leaves_cons, find_app.
  assert (Hloc : locale_get ((k', n') :: r) (k :: rest) =
                 if str_eqb k k' then (match rest with [] => Some n' | _ => match n' with NSub sub => locale_get sub rest | _ => None end end)
                 else locale_get r (k :: rest)).
  { cbn [locale_get assoc]. destruct (str_eqb k k'); destruct rest; reflexivity. }
  rewrite Hloc in H. destruct (str_eqb k k') eqn:Ek.
  - apply str_eqb_eq in Ek. subst k'.
    assert (Hfound : find (fun qx : list str * node => strs_eqb (pfx ++ k :: rest) (fst qx)) (node_leaves (pfx ++ [k]) n')
                     = Some (pfx ++ k :: rest, n)).
    { destruct rest as [|k2 rest'].
      - inversion H; subst n'. destruct n as [v| |sub]; try discriminate; cbn [node_leaves find fst]; rewrite strs_eqb_refl'; reflexivity.
      - destruct n' as [v| |sub]; try discriminate.
        pose proof (IH (pfx ++ [k]) sub n H Hl) as Hf. rewrite <- app_assoc in Hf. exact Hf. }
    rewrite Hfound. reflexivity.
  - rewrite find_none_all.
    + apply IHm. exact H.
    + intros [q x] Hin. destruct (node_leaves_prefix _ _ _ _ Hin) as (q' & ->). cbn [fst].
      rewrite <- app_assoc. rewrite strs_eqb_app_head. cbn [app strs_eqb]. rewrite Ek. reflexivity.
Qed.

(** first entry of a leaf table with a given key *)
Definition leaf_is (k : option str * str * list str) (e : reg_entry) : bool :=
  let '(n, lo, p, _) := e in entry_key_eqb k (n, lo, p).
Definition lfind (k : option str * str * list str) (lv : list reg_entry) : option reg_entry := find (leaf_is k) lv.

Lemma leaves_find ns L p m n : locale_get m p = Some n -> nis_leaf n = true ->
  lfind (ns, L, p) (map (fun pn : list str * node => let '(q, x) := pn in (ns, L, q, x)) (leaves m)) = Some (ns, L, p, n).
Proof.
  intros H Hl. unfold lfind. rewrite find_map.
  rewrite (find_ext _ (fun qx : list str * node => strs_eqb ([] ++ p) (fst qx))).
  - unfold leaves. rewrite (kmap_find p [] m n H Hl). reflexivity.
  - intros [q x]. cbn [leaf_is entry_key_eqb fst app]. rewrite str_eqb_refl.
    assert (E : opt_str_eqb ns ns = true) by (apply opt_str_eqb_eq; reflexivity). rewrite E. reflexivity.
Qed.
Lemma leaves_find_other_locale ns ns' L l' p m : str_eqb L l' = false ->
  lfind (ns, L, p) (map (fun pn : list str * node => let '(q, x) := pn in (ns', l', q, x)) (leaves m)) = None.
Proof.
  intros E. unfold lfind. apply find_none_all. intros e Hin. apply in_map_iff in Hin as ([q x] & <- & _).
  cbn [leaf_is entry_key_eqb]. rewrite E, andb_false_r. reflexivity.
Qed.

Lemma locales_find ns L p (ls : list (str * kmap)) m n :
  assoc L ls = Some m -> locale_get m p = Some n -> nis_leaf n = true ->
  lfind (ns, L, p) (flat_map (fun lm : str * kmap => let '(l, m) := lm in
                                map (fun pn : list str * node => let '(q, x) := pn in (ns, l, q, x)) (leaves m)) ls)
  = Some (ns, L, p, n).
Proof.
  intros Ha H Hl. induction ls as [|[l' m'] r IH]; [discriminate|]. cbn [flat_map]. unfold lfind in *. rewrite find_app.
  cbn [assoc] in Ha. destruct (str_eqb L l') eqn:E.
  - inversion Ha; subst m'. apply str_eqb_eq in E. subst l'. pose proof (leaves_find ns L p m n H Hl) as Hf. unfold lfind in Hf.
    rewrite Hf. reflexivity.
  - pose proof (leaves_find_other_locale ns ns L l' p m' E) as Hn. unfold lfind in Hn. rewrite Hn. apply IH. exact Ha.
Qed.

(** a lookup in the values that ends on a leaf is the first entry of [all_leaves] with its key *)
Theorem get_value_at_lfind vals L ns p n : get_value_at vals L (ns, p) = Some n -> nis_leaf n = true ->
  lfind (ns, L, p) (all_leaves vals) = Some (ns, L, p, n).
Proof.
  unfold get_value_at. cbn [fst snd]. intros H Hl. destruct ns as [nsn|], vals as [ls|nss]; try discriminate.
  - (* namespaces *)
    destruct (assoc nsn nss) as [ls|] eqn:Ens; [|discriminate]. destruct (assoc L ls) as [m|] eqn:El; [|discriminate].
    unfold all_leaves. induction nss as [|[n0 ls0] r IH]; [discriminate|]. cbn [flat_map]. unfold lfind in *. rewrite find_app.
    cbn [assoc] in Ens. destruct (str_eqb nsn n0) eqn:E.
    + inversion Ens; subst ls0. apply str_eqb_eq in E. subst n0.
      pose proof (locales_find (Some nsn) L p ls m n El H Hl) as Hf. unfold lfind in Hf. rewrite Hf. reflexivity.
    + rewrite find_none_all; [apply IH; exact Ens|].
      intros e Hin. apply in_flat_map in Hin as ([l' m'] & _ & Hin). apply in_map_iff in Hin as ([q x] & <- & _).
      cbn [leaf_is entry_key_eqb opt_str_eqb]. rewrite E. reflexivity.
  - (* plain locales *)
    destruct (assoc L ls) as [m|] eqn:El; [|discriminate].
    unfold all_leaves. apply (locales_find None L p ls m n El H Hl).
Qed.

(** * the entries the driver collects *)
Lemma collect_find run : forall lv ents k leaf, collect run lv = Ok ents -> lfind k lv = Some leaf ->
  exists v, run leaf = Ok v /\ find_entry k ents = Some v.
Proof.
  induction lv as [|[[[ns l] p] n] r IH]; intros ents k leaf H Hf; [discriminate|].
  cbn [collect fold_right] in H. fold (collect run r) in H.
  destruct (run (ns, l, p, n)) as [v| | | |] eqn:E; cbn [bind] in H; try discriminate.
  destruct (collect run r) as [r'| | | |] eqn:Er; cbn [bind] in H; try discriminate.
  inversion H; subst ents. unfold lfind in Hf. cbn [find leaf_is] in Hf. cbn [find_entry].
  destruct (entry_key_eqb k (ns, l, p)).
  - inversion Hf; subst leaf. exists v. auto.
  - apply (IH r' k leaf eq_refl Hf).
Qed.

(** * [pieces_eqb] is reflexive *)
Section PieceInd3.
Variable P : piece -> Prop.
Hypothesis HT : forall s, P (PcText s).
Hypothesis HV : forall k f, P (PcVar k f).
Hypothesis HC : forall k inner, Forall P inner -> P (PcComp k inner).
Hypothesis HF : forall ns p args, Forall (fun ka : str * list piece => Forall P (snd ka)) args -> P (PcForeign ns p args).
Fixpoint piece_ind3 (p : piece) : P p :=
  match p with
  | PcText s => HT s
  | PcVar k f => HV k f
  | PcComp k inner =>
      HC k inner ((fix go (l : list piece) : Forall P l :=
                     match l with [] => Forall_nil P | x :: r => Forall_cons x (piece_ind3 x) (go r) end) inner)
  | PcForeign ns pa args =>
      HF ns pa args
        ((fix go1 (l : list (str * list piece)) : Forall (fun ka : str * list piece => Forall P (snd ka)) l :=
            match l with
            | [] => Forall_nil _
            | (k, ps) :: r =>
                Forall_cons (k, ps)
                  ((fix go2 (l2 : list piece) : Forall P l2 :=
                      match l2 with [] => Forall_nil P | x :: r2 => Forall_cons x (piece_ind3 x) (go2 r2) end) ps)
                  (go1 r)
            end) args)
  end.
End PieceInd3.

Lemma fmt_eqb_refl f : fmt_eqb f f = true.
Proof. destruct f; cbn [fmt_eqb]; rewrite ?N.eqb_refl, ?str_eqb_refl; reflexivity. Qed.

Lemma piece_eqb_refl : forall p, piece_eqb p p = true.
Proof.
  apply piece_ind3.
  - intros s. cbn [piece_eqb]. apply str_eqb_refl.
  - intros k f. cbn [piece_eqb]. rewrite str_eqb_refl, fmt_eqb_refl. reflexivity.
  - intros k inner IH. cbn [piece_eqb]. rewrite str_eqb_refl. cbn [andb].
    induction IH as [|x r Hx Hr IHr]; [reflexivity|]. rewrite Hx. cbn [andb]. exact IHr.
  - intros ns p args IH. cbn [piece_eqb].
    assert (E1 : opt_str_eqb ns ns = true) by (apply opt_str_eqb_eq; reflexivity). rewrite E1, strs_eqb_refl'. cbn [andb].
    induction IH as [|[k ps] r Hx Hr IHr]; [reflexivity|]. rewrite str_eqb_refl. cbn [andb snd] in *.
    assert (E2 : (fix go2 (l l' : list piece) {struct l} : bool :=
                    match l with
                    | [] => match l' with [] => true | _ :: _ => false end
                    | x :: r0 => match l' with [] => false | y :: r' => piece_eqb x y && go2 r0 r' end
                    end) ps ps = true).
    { clear -Hx. induction Hx as [|x r0 Hx0 Hr0 IH0]; [reflexivity|]. rewrite Hx0. cbn [andb]. exact IH0. }
    rewrite E2. cbn [andb]. exact IHr.
Qed.
Lemma pieces_eqb_refl l : pieces_eqb l l = true.
Proof. induction l as [|x r IH]; [reflexivity|]. cbn [pieces_eqb]. rewrite piece_eqb_refl, IH. reflexivity. Qed.
