(** Lemmas about the model of plural merging (property C05). *)
From Coq Require Import List NArith Bool Arith Lia.
Import ListNotations.
From LI Require Import Base.StrOps Parser.Plurals.
Open Scope N_scope.

(** * Witnesses *)

(* "x_one" "x_ordinal_one" "x_ordinal_other" "x" *)
Definition w_x : str := [120].
Definition w_x_one : str := [120; 95; 111; 110; 101].
Definition w_x_other : str := [120; 95; 111; 116; 104; 101; 114].
Definition w_x_ordinal_one : str := [120; 95; 111; 114; 100; 105; 110; 97; 108; 95; 111; 110; 101].
Definition w_x_ordinal_other : str := [120; 95; 111; 114; 100; 105; 110; 97; 108; 95; 111; 116; 104; 101; 114].
Definition w_keys : list (str * ival) :=
  [(w_x_one, Leaf 1); (w_x_ordinal_one, Leaf 2); (w_x_ordinal_other, Leaf 3)].
Definition w_cats (r : rule) : list form := match r with Cardinal => [One; Other] | Ordinal => [One; Two; Few; Other] end.

(** the algorithm before the repair merges the ordinal forms and silently drops the cardinal `x_one`:
    the specification (mixing rule types under one key is an error) is false on its output *)
Lemma old_model_refuted :
  merge_level_old (fun _ => true) w_cats [] w_keys = ROk [(w_x, PluralV Ordinal 3 [(One, 2)])] [] /\
  spec_C05 (fun _ => true) w_cats [] w_keys (merge_level_old (fun _ => true) w_cats [] w_keys) = false.
Proof. split; vm_compute; reflexivity. Qed.

(** the repaired algorithm reports the conflict *)
Example new_model_witness :
  merge_level (fun _ => true) w_cats [] w_keys = RErr EConflict [w_x].
Proof. vm_compute. reflexivity. Qed.

(** known finding "lone-other": en writes x_one + x_other, ja writes only x_other; ja is not merged *)
Definition w_en : list (str * ival) := [(w_x_one, Leaf 1); (w_x_other, Leaf 2)].
Definition w_ja : list (str * ival) := [(w_x_other, Leaf 3)].
Definition outs_of (levels : list (list (str * ival))) : list kmap :=
  map (fun ks => match merge_level (fun _ => true) w_cats [] ks with ROk out _ => out | _ => [] end) levels.
Lemma lone_other_refuted :
  lone_other [w_en; w_ja] = true /\ spec_cross [w_en; w_ja] (outs_of [w_en; w_ja]) = false.
Proof. split; vm_compute; reflexivity. Qed.

(** * Selection *)

Lemma form_eqb_eq : forall a b, form_eqb a b = true <-> a = b.
Proof. intros a b; split; [destruct a, b; cbv; congruence | intros ->; destruct b; reflexivity]. Qed.
Lemma form_eqb_refl : forall a, form_eqb a a = true.
Proof. destruct a; reflexivity. Qed.

Lemma fget_finsert : forall c f v m,
  fget c (finsert f v m) = if form_eqb c f then Some v else fget c m.
Proof.
  intros c f v m. induction m as [|[f' v'] r IH]; cbn [finsert fget].
  - reflexivity.
  - destruct (form_ltb f f') eqn:Hlt; cbn [fget].
    + reflexivity.
    + destruct (form_eqb f f') eqn:Heq; cbn [fget].
      * apply form_eqb_eq in Heq. subst f'. destruct (form_eqb c f); reflexivity.
      * rewrite IH. destruct (form_eqb c f') eqn:Hc; [|reflexivity].
        apply form_eqb_eq in Hc. subst f'.
        destruct (form_eqb c f) eqn:Hcf; [|reflexivity].
        apply form_eqb_eq in Hcf. subst f. rewrite form_eqb_refl in Heq. discriminate.
Qed.

Definition build_forms (others : list member) (acc : list (form * N)) : list (form * N) :=
  fold_left (fun acc m => finsert (m_form m) (m_id m) acc) others acc.

(** looking a form up in the map built from the written forms finds the id of a written form of that name, or nothing
    when no such form was written *)
Lemma fget_build_forms : forall others acc c,
  (exists m, In m others /\ m_form m = c /\ fget c (build_forms others acc) = Some (m_id m))
  \/ ((forall m, In m others -> m_form m <> c) /\ fget c (build_forms others acc) = fget c acc).
Proof.
  induction others as [|m r IH]; intros acc c; cbn [build_forms fold_left].
  - right. split; [intros m [] | reflexivity].
  - fold (build_forms r (finsert (m_form m) (m_id m) acc)).
    destruct (IH (finsert (m_form m) (m_id m) acc) c) as [[m' [Hin [Hf Hg]]] | [Hno Hg]].
    + left. exists m'. split; [right; exact Hin | split; assumption].
    + rewrite fget_finsert in Hg. destruct (form_eqb c (m_form m)) eqn:Hc.
      * left. exists m. apply form_eqb_eq in Hc. split; [left; reflexivity | split; [symmetry; exact Hc | exact Hg]].
      * right. split; [| exact Hg]. intros m0 [<- | Hin].
        -- intros Heq. subst c. rewrite form_eqb_refl in Hc. discriminate.
        -- apply Hno. exact Hin.
Qed.

(** the generated match and the parse-time choice pick the same value when `Other` is not a key of the map
    (merge_plurals removes it before building the map) *)
Lemma select_cat_match : forall other forms c,
  fget Other forms = None -> select_cat other forms c = select_match other forms c.
Proof. intros other forms c H. unfold select_cat, select_match. destruct c; try reflexivity. rewrite H. reflexivity. Qed.

Lemma build_forms_no_other : forall others,
  (forall m, In m others -> is_other m = false) -> fget Other (build_forms others []) = None.
Proof.
  intros others H. destruct (fget_build_forms others [] Other) as [[m [Hin [Hf _]]] | [_ Hg]].
  - specialize (H m Hin). unfold is_other in H. rewrite Hf in H. discriminate.
  - exact Hg.
Qed.

(** C05_select: for every CLDR oracle and every count, the value rendered for a merged key is the one written for the
    category of that count, and the `_other` value when no form of that name was written *)
Lemma select_correct :
  forall (locale operand : Type) (cat : locale -> rule -> operand -> form) (l : locale) (r : rule) (n : operand)
         (others : list member) (other : N),
    (forall m, In m others -> is_other m = false) ->
    let forms := build_forms others [] in
    let c := cat l r n in
    select_cat other forms c = select_match other forms c /\
    ((exists m, In m others /\ m_form m = c /\ select_match other forms c = m_id m)
     \/ ((forall m, In m others -> m_form m <> c) /\ select_match other forms c = other)).
Proof.
  intros locale operand cat l r n others other Hno forms c. split.
  - apply select_cat_match. apply build_forms_no_other. exact Hno.
  - unfold select_match, forms.
    destruct (fget_build_forms others [] c) as [[m [Hin [Hf Hg]]] | [Hnone Hg]].
    + left. exists m. rewrite Hg. auto.
    + right. split; [exact Hnone|]. rewrite Hg. reflexivity.
Qed.

(** * Unused forms *)

Lemma existsb_form : forall f l, existsb (form_eqb f) l = true <-> In f l.
Proof.
  intros f l. rewrite existsb_exists. split.
  - intros [x [Hin Hx]]. apply form_eqb_eq in Hx. subst. exact Hin.
  - intros H. exists f. split; [exact H | apply form_eqb_refl].
Qed.

(** C05_unused: check_forms reports UnusedForm(f) exactly for the forms in the map that are not categories of the locale *)
Lemma unused_correct : forall (cats : rule -> list form) path r forms p f r',
  In (p, f, r') (unused cats path r forms) <->
  p = path /\ r' = r /\ (exists v, In (f, v) forms) /\ ~ In f (cats r).
Proof.
  intros cats path r forms p f r'. unfold unused. rewrite in_map_iff. split.
  - intros [[f0 v] [Heq Hin]]. cbn [fst] in Heq. inversion Heq; subst. apply filter_In in Hin. destruct Hin as [Hin Hneg].
    cbn [fst] in Hneg. repeat split; auto.
    + exists v. exact Hin.
    + intros Hc. apply existsb_form in Hc. rewrite Hc in Hneg. discriminate.
  - intros [-> [-> [[v Hin] Hnot]]]. exists (f, v). split; [reflexivity|]. apply filter_In. split; [exact Hin|].
    cbn [fst]. destruct (existsb (form_eqb f) (cats r)) eqn:He; [|reflexivity].
    apply existsb_form in He. contradiction.
Qed.

(** * The rule-type check of one group *)

Lemma rule_eqb_eq : forall a b, rule_eqb a b = true <-> a = b.
Proof. intros a b; split; [destruct a, b; cbv; congruence | intros ->; destruct b; reflexivity]. Qed.

(** C05_conflicts (group level): the conflict test fires exactly when some other written form has a rule type
    different from the `_other` form's *)
Lemma conflict_test : forall (o : member) (others : list member),
  existsb (fun m => negb (rule_eqb (m_rule m) (m_rule o))) others = true <->
  exists m, In m others /\ m_rule m <> m_rule o.
Proof.
  intros o others. rewrite existsb_exists. split; intros [m [Hin H]]; exists m; split; auto.
  - intros Heq. apply rule_eqb_eq in Heq. rewrite Heq in H. discriminate.
  - destruct (rule_eqb (m_rule m) (m_rule o)) eqn:He; [|reflexivity]. apply rule_eqb_eq in He. contradiction.
Qed.

Lemma remove_first_other_spec : forall g o others,
  remove_first_other g = Some (o, others) ->
  is_other o = true /\ (forall m, In m g <-> m = o \/ In m others) /\ length g = S (length others).
Proof.
  induction g as [|m r IH]; intros o others H; cbn [remove_first_other] in H; [discriminate|].
  destruct (is_other m) eqn:Hm.
  - inversion H; subst. split; [exact Hm|]. split; [|reflexivity]. intros m0. cbn [In]. split; intros [A|A]; auto.
  - destruct (remove_first_other r) as [[o' r']|] eqn:Hr; [|discriminate]. inversion H; subst.
    destruct (IH _ _ eq_refl) as [Ho [Hin Hlen]]. split; [exact Ho|]. split.
    + intros m0. cbn [In]. rewrite Hin. tauto.
    + cbn [length]. rewrite Hlen. reflexivity.
Qed.

Lemma remove_first_other_some : forall g, existsb is_other g = true -> exists o others, remove_first_other g = Some (o, others).
Proof.
  induction g as [|m r IH]; cbn [existsb remove_first_other]; intros H; [discriminate|].
  destruct (is_other m); [eauto|]. cbn [orb] in H. destruct (IH H) as [o [others ->]]. eauto.
Qed.

(** * One group of the second loop (the decisions merge_plurals takes for one base key) *)

Section Group.
  Variable is_key : str -> bool.
  Variable cats : rule -> list form.

  Definition group_mergeable (g : list member) : bool := negb (Nat.eqb (length g) 1) && existsb is_other g.

  (** groups with a single key or without `_other` are put back untouched *)
  Lemma group_escape : forall path b g rest keys ws,
    group_mergeable g = false ->
    loop2 is_key cats path ((b, g) :: rest) keys ws = loop2 is_key cats path rest (reinsert g keys) ws.
  Proof.
    intros path b g rest keys ws H. cbn [loop2]. unfold group_mergeable in H.
    destruct (Nat.eqb (length g) 1); cbn [negb andb orb] in *; [reflexivity|]. rewrite H. reflexivity.
  Qed.

  (** mixing cardinal and ordinal forms under one base key is an error naming the key *)
  Lemma group_conflict : forall path b g rest keys ws m1 m2,
    group_mergeable g = true -> is_key b = true ->
    In m1 g -> In m2 g -> m_rule m1 <> m_rule m2 ->
    loop2 is_key cats path ((b, g) :: rest) keys ws = RErr EConflict (path ++ [b]).
  Proof.
    intros path b g rest keys ws m1 m2 Hm Hk H1 H2 Hne. cbn [loop2]. unfold group_mergeable in Hm.
    apply andb_true_iff in Hm. destruct Hm as [Hlen Hoth]. apply negb_true_iff in Hlen. rewrite Hlen, Hoth. cbn [negb orb].
    destruct (remove_first_other_some g Hoth) as [o [others Hr]]. rewrite Hr, Hk. cbn [negb].
    destruct (remove_first_other_spec _ _ _ Hr) as [_ [Hin _]].
    assert (Hex : existsb (fun m => negb (rule_eqb (m_rule m) (m_rule o))) others = true).
    { apply conflict_test.
      apply Hin in H1. apply Hin in H2.
      destruct (rule_eqb (m_rule m1) (m_rule o)) eqn:E1.
      - apply rule_eqb_eq in E1. destruct H2 as [-> | H2]; [congruence|]. exists m2. split; [exact H2 | congruence].
      - destruct H1 as [-> | H1]; [rewrite (proj2 (rule_eqb_eq _ _) eq_refl) in E1; discriminate|].
        exists m1. split; [exact H1|]. intros Heq. apply rule_eqb_eq in Heq. congruence. }
    rewrite Hex. reflexivity.
  Qed.

  (** with one rule type: a collision with an existing key is an error naming the key, otherwise the group becomes one
      plural node under the base key, holding the `_other` value and the map of the other written forms, and
      check_forms' warnings are emitted *)
  Lemma group_merge : forall path b g rest keys ws,
    group_mergeable g = true -> is_key b = true ->
    (forall m1 m2, In m1 g -> In m2 g -> m_rule m1 = m_rule m2) ->
    exists o others,
      remove_first_other g = Some (o, others) /\ is_other o = true /\
      (forall m, In m g <-> m = o \/ In m others) /\
      loop2 is_key cats path ((b, g) :: rest) keys ws =
        if mmem b keys then RErr ECollide (path ++ [b])
        else loop2 is_key cats path rest
               (minsert b (PluralV (m_rule o) (m_id o) (build_forms others [])) keys)
               (ws ++ unused cats (path ++ [b]) (m_rule o) (build_forms others [])).
  Proof.
    intros path b g rest keys ws Hm Hk Hsame. cbn [loop2]. unfold group_mergeable in Hm.
    apply andb_true_iff in Hm. destruct Hm as [Hlen Hoth]. apply negb_true_iff in Hlen. rewrite Hlen, Hoth. cbn [negb orb].
    destruct (remove_first_other_some g Hoth) as [o [others Hr]]. rewrite Hr, Hk. cbn [negb].
    destruct (remove_first_other_spec _ _ _ Hr) as [Ho [Hin _]].
    exists o, others. split; [reflexivity|]. split; [exact Ho|]. split; [exact Hin|].
    assert (Hex : existsb (fun m => negb (rule_eqb (m_rule m) (m_rule o))) others = false).
    { destruct (existsb (fun m => negb (rule_eqb (m_rule m) (m_rule o))) others) eqn:E; [|reflexivity].
      apply conflict_test in E. destruct E as [m [Hmi Hne]]. exfalso. apply Hne.
      apply Hsame; apply Hin; [right; exact Hmi | left; reflexivity]. }
    rewrite Hex. reflexivity.
  Qed.
End Group.

(** * The first loop: candidates are grouped by base key *)

Lemma str_eqb_eq : forall a b, str_eqb a b = true <-> a = b.
Proof.
  induction a as [|x xs IH]; destruct b as [|y ys]; cbn [str_eqb]; split; intros H; try reflexivity; try discriminate.
  - apply andb_true_iff in H. destruct H as [H1 H2]. apply N.eqb_eq in H1. apply IH in H2. subst. reflexivity.
  - inversion H; subst. rewrite N.eqb_refl. cbn [andb]. apply IH. reflexivity.
Qed.
Lemma str_eqb_refl : forall a, str_eqb a a = true.
Proof. intros a. apply str_eqb_eq. reflexivity. Qed.
Lemma str_cmp_eq : forall a b, str_cmp a b = Eq <-> a = b.
Proof.
  induction a as [|x xs IH]; destruct b as [|y ys]; cbn [str_cmp]; split; intros H; try reflexivity; try discriminate.
  - destruct (N.compare x y) eqn:E; try discriminate. apply N.compare_eq in E. apply IH in H. subst. reflexivity.
  - inversion H; subst. rewrite N.compare_refl. apply IH. reflexivity.
Qed.

Lemma mget_minsert : forall (A : Type) k k' (v : A) m,
  mget k (minsert k' v m) = if str_eqb k k' then Some v else mget k m.
Proof.
  intros A k k' v m. induction m as [|[k2 v2] r IH]; cbn [minsert mget].
  - reflexivity.
  - destruct (str_cmp k' k2) eqn:E; cbn [mget].
    + apply str_cmp_eq in E. subst k2. destruct (str_eqb k k'); reflexivity.
    + reflexivity.
    + rewrite IH. destruct (str_eqb k k2) eqn:E2; [|reflexivity].
      apply str_eqb_eq in E2. subst k2. destruct (str_eqb k k') eqn:E3; [|reflexivity].
      apply str_eqb_eq in E3. subst k'. rewrite (proj2 (str_cmp_eq k k) eq_refl) in E. discriminate.
Qed.

Definition gget (b : str) (g : gmap) : list member := match mget b g with Some l => l | None => [] end.
(** the candidate a key contributes to the group of base [b] *)
Definition member_for (b : str) (kv : str * ival) : list member :=
  match tag_of kv with
  | Some (b', r, f, id) => if str_eqb b b' then [(f, fst kv, r, id)] else []
  | None => []
  end.

Lemma gget_gpush : forall b b' m g, gget b (gpush b' m g) = if str_eqb b b' then gget b g ++ [m] else gget b g.
Proof.
  intros b b' m g. unfold gget, gpush. rewrite mget_minsert. destruct (str_eqb b b') eqn:E; [|reflexivity].
  apply str_eqb_eq in E. subst b'. destruct (mget b g); reflexivity.
Qed.

(** C05 grouping: after the first loop the group of base [b] holds exactly the keys `b[_ordinal]_<form>` of the level
    (with a value that is neither a range table nor a sub-object), in key order, whatever the other keys are *)
Lemma first_loop_groups : forall ks keys g b,
  gget b (snd (fold_left step1 ks (keys, g))) = gget b g ++ flat_map (member_for b) ks.
Proof.
  induction ks as [|[k v] r IH]; intros keys g b; cbn [fold_left flat_map].
  - rewrite app_nil_r. reflexivity.
  - unfold step1 at 2. unfold member_for at 1, tag_of. cbn [fst snd].
    destruct (classify k v) as [[[[b' rl] f] id]|] eqn:Hc.
    + rewrite IH, gget_gpush. destruct (str_eqb b b'); [rewrite <- app_assoc|]; reflexivity.
    + rewrite IH. reflexivity.
Qed.

Lemma find_app_or : forall (A : Type) (f : A -> bool) l1 l2,
  find f (l1 ++ l2) = match find f l1 with Some x => Some x | None => find f l2 end.
Proof. induction l1 as [|x r IH]; intros l2; cbn [app find]; [reflexivity|]. destruct (f x); [reflexivity | apply IH]. Qed.

(** keys that are not plural candidates are put back unchanged *)
Lemma first_loop_keys : forall ks keys g k,
  mget k (fst (fold_left step1 ks (keys, g))) =
  match find (fun kv => str_eqb k (fst kv) && match tag_of kv with None => true | Some _ => false end) (rev ks) with
  | Some kv => Some (Kept (snd kv))
  | None => mget k keys
  end.
Proof.
  induction ks as [|[k' v] r IH]; intros keys g k; cbn [fold_left rev].
  - reflexivity.
  - unfold step1 at 2. rewrite find_app_or.
    destruct (classify k' v) as [[[[b' rl] f] id]|] eqn:Hc.
    + rewrite IH. destruct (find _ (rev r)); [reflexivity|]. cbn [find fst snd tag_of]. unfold tag_of. cbn [fst snd].
      rewrite Hc, andb_false_r. reflexivity.
    + rewrite IH. destruct (find _ (rev r)); [reflexivity|]. cbn [find]. unfold tag_of. cbn [fst snd].
      rewrite Hc, andb_true_r, mget_minsert. destruct (str_eqb k k'); reflexivity.
Qed.
