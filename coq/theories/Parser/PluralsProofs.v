(** Lemmas about the model of plural merging (property C05). *)
From Coq Require Import List NArith Bool Arith Lia Permutation.
Import ListNotations.
From LI Require Import Base.StrOps Parser.Plurals.
Open Scope N_scope.

(** * Witnesses *)

(* "x_one" "x_ordinal_one" "x_ordinal_other" "x" *)
Definition w_x : str := [120].
Definition w_x_one : str := [120; 95; 111; 110; 101].
Definition w_x_other : str := [120; 95; 111; 116; 104; 101; 114].
Definition w_x_ordinal_one : str := [120; 95; 111; 114; 100; 105; 110; 97; 108; 95; 111; 110; 101].
Definition w_x_ordinal_other : str := [120; 95; 111; 114; 100; 105; 110; 97; 108; 95; 111; 116; 104; 101; 114].
Definition w_keys : list (str * ival) :=
  [(w_x_one, Leaf 1); (w_x_ordinal_one, Leaf 2); (w_x_ordinal_other, Leaf 3)].
Definition w_cats (r : rule) : list form := match r with Cardinal => [One; Other] | Ordinal => [One; Two; Few; Other] end.

(** the algorithm before the repair merges the ordinal forms and silently drops the cardinal `x_one`:
    the specification (mixing rule types under one key is an error) is false on its output *)
Lemma old_model_refuted :
  merge_level_old (fun _ => true) w_cats [] w_keys = ROk [(w_x, PluralV Ordinal 3 [(One, 2)])] [] /\
  spec_C05 (fun _ => true) w_cats [] w_keys (merge_level_old (fun _ => true) w_cats [] w_keys) = false.
Proof. split; vm_compute; reflexivity. Qed.

(** the repaired algorithm reports the conflict *)
Example new_model_witness :
  merge_level (fun _ => true) w_cats [] w_keys = RErr EConflict [w_x].
Proof. vm_compute. reflexivity. Qed.

(** before fixes/C09-plural-base-key-not-identifier.diff: `in_one` + `in_other` panicked; now a descriptive error *)
Definition w_in : str := [105; 110].
Definition w_in_keys : list (str * ival) :=
  [([105; 110; 95; 111; 110; 101], Leaf 1); ([105; 110; 95; 111; 116; 104; 101; 114], Leaf 2)].
Definition w_is_key (b : str) : bool := negb (str_eqb b w_in).
Lemma panic_old_refuted :
  merge_level_panic_old w_is_key w_cats [] w_in_keys = RPanic /\
  spec_C05 w_is_key w_cats [] w_in_keys (merge_level_panic_old w_is_key w_cats [] w_in_keys) = false /\
  merge_level w_is_key w_cats [] w_in_keys = RErr EInvalid [w_in].
Proof. repeat split; vm_compute; reflexivity. Qed.

(** known finding "lone-other": en writes x_one + x_other, ja writes only x_other; ja is not merged *)
Definition w_en : list (str * ival) := [(w_x_one, Leaf 1); (w_x_other, Leaf 2)].
Definition w_ja : list (str * ival) := [(w_x_other, Leaf 3)].
Definition outs_of (levels : list (list (str * ival))) : list kmap :=
  map (fun ks => match merge_level (fun _ => true) w_cats [] ks with ROk out _ => out | _ => [] end) levels.
Lemma lone_other_refuted :
  lone_other [w_en; w_ja] = true /\ spec_cross [w_en; w_ja] (outs_of [w_en; w_ja]) = false.
Proof. split; vm_compute; reflexivity. Qed.

(** * Selection *)

Lemma form_eqb_eq : forall a b, form_eqb a b = true <-> a = b.
Proof. intros a b; split; [destruct a, b; cbv; congruence | intros ->; destruct b; reflexivity]. Qed.
Lemma form_eqb_refl : forall a, form_eqb a a = true.
Proof. destruct a; reflexivity. Qed.

Lemma fget_finsert : forall c f v m,
  fget c (finsert f v m) = if form_eqb c f then Some v else fget c m.
Proof.
  intros c f v m. induction m as [|[f' v'] r IH]; cbn [finsert fget].
  - reflexivity.
  - destruct (form_ltb f f') eqn:Hlt; cbn [fget].
    + reflexivity.
    + destruct (form_eqb f f') eqn:Heq; cbn [fget].
      * apply form_eqb_eq in Heq. subst f'. destruct (form_eqb c f); reflexivity.
      * rewrite IH. destruct (form_eqb c f') eqn:Hc; [|reflexivity].
        apply form_eqb_eq in Hc. subst f'.
        destruct (form_eqb c f) eqn:Hcf; [|reflexivity].
        apply form_eqb_eq in Hcf. subst f. rewrite form_eqb_refl in Heq. discriminate.
Qed.

Definition build_forms (others : list member) (acc : list (form * N)) : list (form * N) :=
  fold_left (fun acc m => finsert (m_form m) (m_id m) acc) others acc.

(** looking a form up in the map built from the written forms finds the id of a written form of that name, or nothing
    when no such form was written *)
Lemma fget_build_forms : forall others acc c,
  (exists m, In m others /\ m_form m = c /\ fget c (build_forms others acc) = Some (m_id m))
  \/ ((forall m, In m others -> m_form m <> c) /\ fget c (build_forms others acc) = fget c acc).
Proof.
  induction others as [|m r IH]; intros acc c; cbn [build_forms fold_left].
  - right. split; [intros m [] | reflexivity].
  - fold (build_forms r (finsert (m_form m) (m_id m) acc)).
    destruct (IH (finsert (m_form m) (m_id m) acc) c) as [[m' [Hin [Hf Hg]]] | [Hno Hg]].
    + left. exists m'. split; [right; exact Hin | split; assumption].
    + rewrite fget_finsert in Hg. destruct (form_eqb c (m_form m)) eqn:Hc.
      * left. exists m. apply form_eqb_eq in Hc. split; [left; reflexivity | split; [symmetry; exact Hc | exact Hg]].
      * right. split; [| exact Hg]. intros m0 [<- | Hin].
        -- intros Heq. subst c. rewrite form_eqb_refl in Hc. discriminate.
        -- apply Hno. exact Hin.
Qed.

(** the generated match and the parse-time choice pick the same value when `Other` is not a key of the map
    (merge_plurals removes it before building the map) *)
Lemma select_cat_match : forall other forms c,
  fget Other forms = None -> select_cat other forms c = select_match other forms c.
Proof. intros other forms c H. unfold select_cat, select_match. destruct c; try reflexivity. rewrite H. reflexivity. Qed.

Lemma build_forms_no_other : forall others,
  (forall m, In m others -> is_other m = false) -> fget Other (build_forms others []) = None.
Proof.
  intros others H. destruct (fget_build_forms others [] Other) as [[m [Hin [Hf _]]] | [_ Hg]].
  - specialize (H m Hin). unfold is_other in H. rewrite Hf in H. discriminate.
  - exact Hg.
Qed.

(** C05_select: for every CLDR oracle and every count, the value rendered for a merged key is the one written for the
    category of that count, and the `_other` value when no form of that name was written *)
Lemma select_correct :
  forall (locale operand : Type) (cat : locale -> rule -> operand -> form) (l : locale) (r : rule) (n : operand)
         (others : list member) (other : N),
    (forall m, In m others -> is_other m = false) ->
    let forms := build_forms others [] in
    let c := cat l r n in
    select_cat other forms c = select_match other forms c /\
    ((exists m, In m others /\ m_form m = c /\ select_match other forms c = m_id m)
     \/ ((forall m, In m others -> m_form m <> c) /\ select_match other forms c = other)).
Proof.
  intros locale operand cat l r n others other Hno forms c. split.
  - apply select_cat_match. apply build_forms_no_other. exact Hno.
  - unfold select_match, forms.
    destruct (fget_build_forms others [] c) as [[m [Hin [Hf Hg]]] | [Hnone Hg]].
    + left. exists m. rewrite Hg. auto.
    + right. split; [exact Hnone|]. rewrite Hg. reflexivity.
Qed.

(** * Unused forms *)

Lemma existsb_form : forall f l, existsb (form_eqb f) l = true <-> In f l.
Proof.
  intros f l. rewrite existsb_exists. split.
  - intros [x [Hin Hx]]. apply form_eqb_eq in Hx. subst. exact Hin.
  - intros H. exists f. split; [exact H | apply form_eqb_refl].
Qed.

(** C05_unused: check_forms reports UnusedForm(f) exactly for the forms in the map that are not categories of the locale *)
Lemma unused_correct : forall (cats : rule -> list form) path r forms p f r',
  In (p, f, r') (unused cats path r forms) <->
  p = path /\ r' = r /\ (exists v, In (f, v) forms) /\ ~ In f (cats r).
Proof.
  intros cats path r forms p f r'. unfold unused. rewrite in_map_iff. split.
  - intros [[f0 v] [Heq Hin]]. cbn [fst] in Heq. inversion Heq; subst. apply filter_In in Hin. destruct Hin as [Hin Hneg].
    cbn [fst] in Hneg. repeat split; auto.
    + exists v. exact Hin.
    + intros Hc. apply existsb_form in Hc. rewrite Hc in Hneg. discriminate.
  - intros [-> [-> [[v Hin] Hnot]]]. exists (f, v). split; [reflexivity|]. apply filter_In. split; [exact Hin|].
    cbn [fst]. destruct (existsb (form_eqb f) (cats r)) eqn:He; [|reflexivity].
    apply existsb_form in He. contradiction.
Qed.

(** * The rule-type check of one group *)

Lemma rule_eqb_eq : forall a b, rule_eqb a b = true <-> a = b.
Proof. intros a b; split; [destruct a, b; cbv; congruence | intros ->; destruct b; reflexivity]. Qed.

(** C05_conflicts (group level): the conflict test fires exactly when some other written form has a rule type
    different from the `_other` form's *)
Lemma conflict_test : forall (o : member) (others : list member),
  existsb (fun m => negb (rule_eqb (m_rule m) (m_rule o))) others = true <->
  exists m, In m others /\ m_rule m <> m_rule o.
Proof.
  intros o others. rewrite existsb_exists. split; intros [m [Hin H]]; exists m; split; auto.
  - intros Heq. apply rule_eqb_eq in Heq. rewrite Heq in H. discriminate.
  - destruct (rule_eqb (m_rule m) (m_rule o)) eqn:He; [|reflexivity]. apply rule_eqb_eq in He. contradiction.
Qed.

Lemma remove_first_other_spec : forall g o others,
  remove_first_other g = Some (o, others) ->
  is_other o = true /\ (forall m, In m g <-> m = o \/ In m others) /\ length g = S (length others).
Proof.
  induction g as [|m r IH]; intros o others H; cbn [remove_first_other] in H; [discriminate|].
  destruct (is_other m) eqn:Hm.
  - inversion H; subst. split; [exact Hm|]. split; [|reflexivity]. intros m0. cbn [In]. split; intros [A|A]; auto.
  - destruct (remove_first_other r) as [[o' r']|] eqn:Hr; [|discriminate]. inversion H; subst.
    destruct (IH _ _ eq_refl) as [Ho [Hin Hlen]]. split; [exact Ho|]. split.
    + intros m0. cbn [In]. rewrite Hin. tauto.
    + cbn [length]. rewrite Hlen. reflexivity.
Qed.

Lemma remove_first_other_some : forall g, existsb is_other g = true -> exists o others, remove_first_other g = Some (o, others).
Proof.
  induction g as [|m r IH]; cbn [existsb remove_first_other]; intros H; [discriminate|].
  destruct (is_other m); [eauto|]. cbn [orb] in H. destruct (IH H) as [o [others ->]]. eauto.
Qed.

(** * One group of the second loop (the decisions merge_plurals takes for one base key) *)

Section Group.
  Variable is_key : str -> bool.
  Variable cats : rule -> list form.

  Definition group_mergeable (g : list member) : bool := negb (Nat.eqb (length g) 1) && existsb is_other g.

  (** groups with a single key or without `_other` are put back untouched *)
  Lemma group_escape : forall path b g rest keys ws,
    group_mergeable g = false ->
    loop2 is_key cats path ((b, g) :: rest) keys ws = loop2 is_key cats path rest (reinsert g keys) ws.
  Proof.
    intros path b g rest keys ws H. cbn [loop2]. unfold group_mergeable in H.
    destruct (Nat.eqb (length g) 1); cbn [negb andb orb] in *; [reflexivity|]. rewrite H. reflexivity.
  Qed.

  (** mixing cardinal and ordinal forms under one base key is an error naming the key *)
  Lemma group_conflict : forall path b g rest keys ws m1 m2,
    group_mergeable g = true -> is_key b = true ->
    In m1 g -> In m2 g -> m_rule m1 <> m_rule m2 ->
    loop2 is_key cats path ((b, g) :: rest) keys ws = RErr EConflict (path ++ [b]).
  Proof.
    intros path b g rest keys ws m1 m2 Hm Hk H1 H2 Hne. cbn [loop2]. unfold group_mergeable in Hm.
    apply andb_true_iff in Hm. destruct Hm as [Hlen Hoth]. apply negb_true_iff in Hlen. rewrite Hlen, Hoth. cbn [negb orb].
    destruct (remove_first_other_some g Hoth) as [o [others Hr]]. rewrite Hr, Hk. cbn [negb].
    destruct (remove_first_other_spec _ _ _ Hr) as [_ [Hin _]].
    assert (Hex : existsb (fun m => negb (rule_eqb (m_rule m) (m_rule o))) others = true).
    { apply conflict_test.
      apply Hin in H1. apply Hin in H2.
      destruct (rule_eqb (m_rule m1) (m_rule o)) eqn:E1.
      - apply rule_eqb_eq in E1. destruct H2 as [-> | H2]; [congruence|]. exists m2. split; [exact H2 | congruence].
      - destruct H1 as [-> | H1]; [rewrite (proj2 (rule_eqb_eq _ _) eq_refl) in E1; discriminate|].
        exists m1. split; [exact H1|]. intros Heq. apply rule_eqb_eq in Heq. congruence. }
    rewrite Hex. reflexivity.
  Qed.

  (** with one rule type: a collision with an existing key is an error naming the key, otherwise the group becomes one
      plural node under the base key, holding the `_other` value and the map of the other written forms, and
      check_forms' warnings are emitted *)
  Lemma group_merge : forall path b g rest keys ws,
    group_mergeable g = true -> is_key b = true ->
    (forall m1 m2, In m1 g -> In m2 g -> m_rule m1 = m_rule m2) ->
    exists o others,
      remove_first_other g = Some (o, others) /\ is_other o = true /\
      (forall m, In m g <-> m = o \/ In m others) /\
      loop2 is_key cats path ((b, g) :: rest) keys ws =
        if mmem b keys then RErr ECollide (path ++ [b])
        else loop2 is_key cats path rest
               (minsert b (PluralV (m_rule o) (m_id o) (build_forms others [])) keys)
               (ws ++ unused cats (path ++ [b]) (m_rule o) (build_forms others [])).
  Proof.
    intros path b g rest keys ws Hm Hk Hsame. cbn [loop2]. unfold group_mergeable in Hm.
    apply andb_true_iff in Hm. destruct Hm as [Hlen Hoth]. apply negb_true_iff in Hlen. rewrite Hlen, Hoth. cbn [negb orb].
    destruct (remove_first_other_some g Hoth) as [o [others Hr]]. rewrite Hr, Hk. cbn [negb].
    destruct (remove_first_other_spec _ _ _ Hr) as [Ho [Hin _]].
    exists o, others. split; [reflexivity|]. split; [exact Ho|]. split; [exact Hin|].
    assert (Hex : existsb (fun m => negb (rule_eqb (m_rule m) (m_rule o))) others = false).
    { destruct (existsb (fun m => negb (rule_eqb (m_rule m) (m_rule o))) others) eqn:E; [|reflexivity].
      apply conflict_test in E. destruct E as [m [Hmi Hne]]. exfalso. apply Hne.
      apply Hsame; apply Hin; [right; exact Hmi | left; reflexivity]. }
    rewrite Hex. reflexivity.
  Qed.
End Group.

(** * The first loop: candidates are grouped by base key *)

Lemma str_eqb_eq : forall a b, str_eqb a b = true <-> a = b.
Proof.
  induction a as [|x xs IH]; destruct b as [|y ys]; cbn [str_eqb]; split; intros H; try reflexivity; try discriminate.
  - apply andb_true_iff in H. destruct H as [H1 H2]. apply N.eqb_eq in H1. apply IH in H2. subst. reflexivity.
  - inversion H; subst. rewrite N.eqb_refl. cbn [andb]. apply IH. reflexivity.
Qed.
Lemma str_eqb_refl : forall a, str_eqb a a = true.
Proof. intros a. apply str_eqb_eq. reflexivity. Qed.
Lemma str_cmp_eq : forall a b, str_cmp a b = Eq <-> a = b.
Proof.
  induction a as [|x xs IH]; destruct b as [|y ys]; cbn [str_cmp]; split; intros H; try reflexivity; try discriminate.
  - destruct (N.compare x y) eqn:E; try discriminate. apply N.compare_eq in E. apply IH in H. subst. reflexivity.
  - inversion H; subst. rewrite N.compare_refl. apply IH. reflexivity.
Qed.

Lemma mget_minsert : forall (A : Type) k k' (v : A) m,
  mget k (minsert k' v m) = if str_eqb k k' then Some v else mget k m.
Proof.
  intros A k k' v m. induction m as [|[k2 v2] r IH]; cbn [minsert mget].
  - reflexivity.
  - destruct (str_cmp k' k2) eqn:E; cbn [mget].
    + apply str_cmp_eq in E. subst k2. destruct (str_eqb k k'); reflexivity.
    + reflexivity.
    + rewrite IH. destruct (str_eqb k k2) eqn:E2; [|reflexivity].
      apply str_eqb_eq in E2. subst k2. destruct (str_eqb k k') eqn:E3; [|reflexivity].
      apply str_eqb_eq in E3. subst k'. rewrite (proj2 (str_cmp_eq k k) eq_refl) in E. discriminate.
Qed.

Definition gget (b : str) (g : gmap) : list member := match mget b g with Some l => l | None => [] end.
(** the candidate a key contributes to the group of base [b] *)
Definition member_for (b : str) (kv : str * ival) : list member :=
  match tag_of kv with
  | Some (b', r, f, id) => if str_eqb b b' then [(f, fst kv, r, id)] else []
  | None => []
  end.

Lemma gget_gpush : forall b b' m g, gget b (gpush b' m g) = if str_eqb b b' then gget b g ++ [m] else gget b g.
Proof.
  intros b b' m g. unfold gget, gpush. rewrite mget_minsert. destruct (str_eqb b b') eqn:E; [|reflexivity].
  apply str_eqb_eq in E. subst b'. destruct (mget b g); reflexivity.
Qed.

(** C05 grouping: after the first loop the group of base [b] holds exactly the keys `b[_ordinal]_<form>` of the level
    (with a value that is neither a range table nor a sub-object), in key order, whatever the other keys are *)
Lemma first_loop_groups : forall ks keys g b,
  gget b (snd (fold_left step1 ks (keys, g))) = gget b g ++ flat_map (member_for b) ks.
Proof.
  induction ks as [|[k v] r IH]; intros keys g b; cbn [fold_left flat_map].
  - rewrite app_nil_r. reflexivity.
  - unfold step1 at 2. unfold member_for at 1, tag_of. cbn [fst snd].
    destruct (classify k v) as [[[[b' rl] f] id]|] eqn:Hc.
    + rewrite IH, gget_gpush. destruct (str_eqb b b'); [rewrite <- app_assoc|]; reflexivity.
    + rewrite IH. reflexivity.
Qed.

Lemma find_app_or : forall (A : Type) (f : A -> bool) l1 l2,
  find f (l1 ++ l2) = match find f l1 with Some x => Some x | None => find f l2 end.
Proof. induction l1 as [|x r IH]; intros l2; cbn [app find]; [reflexivity|]. destruct (f x); [reflexivity | apply IH]. Qed.

(** keys that are not plural candidates are put back unchanged *)
Lemma first_loop_keys : forall ks keys g k,
  mget k (fst (fold_left step1 ks (keys, g))) =
  match find (fun kv => str_eqb k (fst kv) && match tag_of kv with None => true | Some _ => false end) (rev ks) with
  | Some kv => Some (Kept (snd kv))
  | None => mget k keys
  end.
Proof.
  induction ks as [|[k' v] r IH]; intros keys g k; cbn [fold_left rev].
  - reflexivity.
  - unfold step1 at 2. rewrite find_app_or.
    destruct (classify k' v) as [[[[b' rl] f] id]|] eqn:Hc.
    + rewrite IH. destruct (find _ (rev r)); [reflexivity|]. cbn [find fst snd tag_of]. unfold tag_of. cbn [fst snd].
      rewrite Hc, andb_false_r. reflexivity.
    + rewrite IH. destruct (find _ (rev r)); [reflexivity|]. cbn [find]. unfold tag_of. cbn [fst snd].
      rewrite Hc, andb_true_r, mget_minsert. destruct (str_eqb k k'); reflexivity.
Qed.

(** * Order on strings (byte-wise order of BTreeMap keys) *)

Lemma str_cmp_refl : forall a, str_cmp a a = Eq.
Proof. intros a. apply str_cmp_eq. reflexivity. Qed.

Lemma str_cmp_antisym : forall a b, str_cmp a b = CompOpp (str_cmp b a).
Proof.
  induction a as [|x xs IH]; destruct b as [|y ys]; cbn [str_cmp CompOpp]; try reflexivity.
  rewrite (N.compare_antisym y x). destruct (N.compare y x); cbn [CompOpp]; try reflexivity. apply IH.
Qed.

Lemma str_cmp_trans : forall a b c, str_cmp a b = Lt -> str_cmp b c = Lt -> str_cmp a c = Lt.
Proof.
  induction a as [|x xs IH]; intros [|y ys] [|z zs]; cbn [str_cmp]; intros H1 H2; try discriminate; try reflexivity.
  destruct (N.compare x y) eqn:Exy; try discriminate.
  - apply N.compare_eq in Exy. subst y. destruct (N.compare x z) eqn:Exz; try discriminate; try reflexivity.
    apply (IH ys zs); assumption.
  - destruct (N.compare y z) eqn:Eyz; try discriminate.
    + apply N.compare_eq in Eyz. subst z. rewrite Exy. reflexivity.
    + apply N.compare_lt_iff in Exy. apply N.compare_lt_iff in Eyz.
      assert (Hxz : (x < z)%N) by (apply (N.lt_trans x y z); assumption). apply N.compare_lt_iff in Hxz. rewrite Hxz. reflexivity.
Qed.

Lemma str_ltb_lt : forall a b, str_ltb a b = true <-> str_cmp a b = Lt.
Proof. intros a b. unfold str_ltb. destruct (str_cmp a b); split; intros H; try reflexivity; discriminate. Qed.
Lemma str_ltb_trans : forall a b c, str_ltb a b = true -> str_ltb b c = true -> str_ltb a c = true.
Proof. intros a b c H1 H2. apply str_ltb_lt. apply str_ltb_lt in H1. apply str_ltb_lt in H2. apply (str_cmp_trans a b c); assumption. Qed.
Lemma str_ltb_irrefl : forall a, str_ltb a a = false.
Proof. intros a. unfold str_ltb. rewrite str_cmp_refl. reflexivity. Qed.
Lemma str_ltb_asym : forall a b, str_ltb a b = true -> str_ltb b a = false.
Proof.
  intros a b H. apply str_ltb_lt in H. unfold str_ltb. rewrite str_cmp_antisym, H. reflexivity.
Qed.
Lemma str_cmp_gt_lt : forall a b, str_cmp a b = Gt -> str_ltb b a = true.
Proof. intros a b H. unfold str_ltb. rewrite str_cmp_antisym, H. reflexivity. Qed.

(** a proper prefix sorts first *)
Lemma str_ltb_prefix : forall b x, x <> [] -> str_ltb b (b ++ x) = true.
Proof.
  intros b x Hx. apply str_ltb_lt. induction b as [|c r IH]; cbn [app str_cmp].
  - destruct x; [contradiction | reflexivity].
  - rewrite N.compare_refl. exact IH.
Qed.

(** * Sorted association lists *)

Section SMap.
  Context {A : Type}.
  Fixpoint ssorted (m : list (str * A)) : Prop :=
    match m with
    | [] => True
    | (k, _) :: r => (forall x, In x (map fst r) -> str_ltb k x = true) /\ ssorted r
    end.

  Lemma keys_minsert : forall k k' (v : A) m, In k (map fst (minsert k' v m)) <-> k = k' \/ In k (map fst m).
  Proof.
    intros k k' v m. induction m as [|[k2 v2] r IH]; cbn [minsert map fst In].
    - intuition.
    - destruct (str_cmp k' k2) eqn:E; cbn [map fst In].
      + apply str_cmp_eq in E. subst k2. intuition.
      + intuition.
      + rewrite IH. intuition.
  Qed.

  Lemma minsert_ssorted : forall k (v : A) m, ssorted m -> ssorted (minsert k v m).
  Proof.
    intros k v m. induction m as [|[k2 v2] r IH]; intros H; cbn [minsert].
    - cbn [ssorted map In]. split; [intros x []|exact I].
    - destruct H as [Hlb Hr]. destruct (str_cmp k k2) eqn:E.
      + apply str_cmp_eq in E. subst k2. cbn [ssorted]. split; assumption.
      + cbn [ssorted]. split; [|split; assumption]. intros x [<- | Hx].
        * apply str_ltb_lt. exact E.
        * apply (str_ltb_trans k k2 x); [apply str_ltb_lt; exact E | apply Hlb; exact Hx].
      + cbn [ssorted]. split; [|apply IH; exact Hr]. intros x Hx. apply keys_minsert in Hx. destruct Hx as [-> | Hx].
        * apply str_cmp_gt_lt. exact E.
        * apply Hlb. exact Hx.
  Qed.

  Lemma mget_none_iff : forall k (m : list (str * A)), mget k m = None <-> ~ In k (map fst m).
  Proof.
    intros k m. induction m as [|[k2 v2] r IH]; cbn [mget map fst In]; [intuition|].
    destruct (str_eqb k k2) eqn:E.
    - apply str_eqb_eq in E. subst k2. split; [discriminate | intros H; exfalso; apply H; left; reflexivity].
    - rewrite IH. split; [intros H [H1|H1]; [subst k2; rewrite str_eqb_refl in E; discriminate | contradiction] | intuition].
  Qed.

  Lemma mget_in : forall k (v : A) m, mget k m = Some v -> In (k, v) m.
  Proof.
    intros k v m. induction m as [|[k2 v2] r IH]; cbn [mget]; [discriminate|].
    destruct (str_eqb k k2) eqn:E; intros H.
    - apply str_eqb_eq in E. subst k2. inversion H; subst. left. reflexivity.
    - right. apply IH. exact H.
  Qed.

  Lemma in_mget : forall k (v : A) m, ssorted m -> In (k, v) m -> mget k m = Some v.
  Proof.
    intros k v m. induction m as [|[k2 v2] r IH]; intros Hs Hin; [destruct Hin|].
    destruct Hs as [Hlb Hr]. cbn [mget]. destruct Hin as [Heq | Hin].
    - inversion Heq; subst. rewrite str_eqb_refl. reflexivity.
    - destruct (str_eqb k k2) eqn:E; [|apply IH; assumption].
      apply str_eqb_eq in E. subst k2. exfalso.
      assert (Hk : In k (map fst r)) by (apply in_map_iff; exists (k, v); split; [reflexivity | exact Hin]).
      specialize (Hlb k Hk). rewrite str_ltb_irrefl in Hlb. discriminate.
  Qed.

  Lemma ssorted_sorted_strict : forall (m : list (str * A)), ssorted m -> sorted_strict (map fst m) = true.
  Proof.
    induction m as [|[k v] r IH]; intros H; [reflexivity|]. destruct H as [Hlb Hr].
    destruct r as [|[k2 v2] r2]; [reflexivity|]. cbn [map fst sorted_strict]. apply andb_true_iff. split.
    - apply Hlb. left. reflexivity.
    - apply (IH Hr).
  Qed.
End SMap.

(** * Shape of a plural candidate's key *)

Lemma strip_prefix_app : forall p s rest, strip_prefix p s = Some rest -> s = p ++ rest.
Proof.
  induction p as [|x xs IH]; intros s rest H; cbn [strip_prefix] in H.
  - inversion H. reflexivity.
  - destruct s as [|y ys]; [discriminate|]. destruct (x =? y) eqn:E; [|discriminate].
    apply N.eqb_eq in E. subst y. cbn [app]. f_equal. apply IH. exact H.
Qed.

Lemma rsplit_once_app : forall p s a b, rsplit_once p s = Some (a, b) -> s = a ++ p ++ b.
Proof.
  intros p. induction s as [|c r IH]; intros a b H; cbn [rsplit_once] in H.
  - destruct p; [|discriminate]. inversion H. reflexivity.
  - destruct (rsplit_once p r) as [[a' b']|] eqn:Hr.
    + inversion H; subst. cbn [app]. f_equal. apply IH. reflexivity.
    + destruct (strip_prefix p (c :: r)) as [rest|] eqn:Hs; [|discriminate]. inversion H; subst.
      cbn [app]. apply strip_prefix_app. exact Hs.
Qed.

Lemma strip_suffix_app : forall suf s r, strip_suffix suf s = Some r -> s = r ++ suf.
Proof.
  intros suf s r H. unfold strip_suffix in H. destruct (strip_prefix (rev suf) (rev s)) as [x|] eqn:Hs; [|discriminate].
  inversion H; subst. apply strip_prefix_app in Hs. rewrite <- (rev_involutive s), Hs, rev_app_distr, rev_involutive. reflexivity.
Qed.

Definition form_name (f : form) : str :=
  match f with Zero => s_zero | One => s_one | Two => s_two | Few => s_few | Many => s_many | Other => s_other end.
Lemma form_of_str_name : forall s f, form_of_str s = Some f -> s = form_name f.
Proof.
  intros s f H. unfold form_of_str in H.
  repeat match type of H with
         | (if str_eqb ?a ?b then _ else _) = _ =>
             let E := fresh "E" in destruct (str_eqb a b) eqn:E;
             [apply str_eqb_eq in E; inversion H; subst; reflexivity|]
         end.
  discriminate.
Qed.

Definition rule_infix (r : rule) : str := match r with Ordinal => s_ordinal | Cardinal => [] end.

Lemma classify_shape : forall k v b r f id,
  classify k v = Some (b, r, f, id) -> v = Leaf id /\ k = b ++ rule_infix r ++ [underscore] ++ form_name f.
Proof.
  intros k v b r f id H. unfold classify in H. destruct v as [i|i|i]; try discriminate.
  destruct (rsplit_once [underscore] k) as [[base suffix]|] eqn:Hr; [|discriminate].
  apply rsplit_once_app in Hr.
  destruct (strip_suffix s_ordinal base) as [b'|] eqn:Hs.
  - destruct (form_of_str suffix) as [f'|] eqn:Hf; [|discriminate]. inversion H; subst.
    apply strip_suffix_app in Hs. apply form_of_str_name in Hf. subst. split; [reflexivity|].
    cbn [rule_infix]. rewrite <- app_assoc. reflexivity.
  - destruct (form_of_str suffix) as [f'|] eqn:Hf; [|discriminate]. inversion H; subst.
    apply form_of_str_name in Hf. subst. split; reflexivity.
Qed.

(** the base key is a proper prefix of the candidate's key, hence sorts before it *)
Lemma base_lt_key : forall k v b r f id, classify k v = Some (b, r, f, id) -> str_ltb b k = true.
Proof.
  intros k v b r f id H. destruct (classify_shape _ _ _ _ _ _ H) as [_ ->]. apply str_ltb_prefix.
  destruct (rule_infix r); discriminate.
Qed.

(** base, rule type and form determine the key *)
Lemma classify_inj : forall k1 v1 k2 v2 b r f i1 i2,
  classify k1 v1 = Some (b, r, f, i1) -> classify k2 v2 = Some (b, r, f, i2) -> k1 = k2.
Proof.
  intros k1 v1 k2 v2 b r f i1 i2 H1 H2.
  destruct (classify_shape _ _ _ _ _ _ H1) as [_ ->]. destruct (classify_shape _ _ _ _ _ _ H2) as [_ ->]. reflexivity.
Qed.

(** * Groups of the first loop versus the filter-based [members] of the specification *)

Lemma str_eqb_sym : forall a b, str_eqb a b = str_eqb b a.
Proof.
  intros a b. destruct (str_eqb a b) eqn:E.
  - apply str_eqb_eq in E. subst. symmetry. apply str_eqb_refl.
  - destruct (str_eqb b a) eqn:E2; [|reflexivity]. apply str_eqb_eq in E2. subst. rewrite str_eqb_refl in E. discriminate.
Qed.

Definition to_member (kv : str * ival) : member :=
  match tag_of kv with
  | Some (_, r, f, id) => (f, fst kv, r, id)
  | None => (Other, fst kv, Cardinal, 0)
  end.
Definition grp (ks : list (str * ival)) (b : str) : list member := map to_member (members ks b).

Lemma mem_list_members : forall ks b, flat_map (member_for b) ks = grp ks b.
Proof.
  intros ks b. unfold grp, members. induction ks as [|kv r IH]; cbn [flat_map filter map]; [reflexivity|].
  unfold member_for at 1, in_group at 1, to_member. destruct (tag_of kv) as [[[[b' rl] f] id]|] eqn:Ht.
  - rewrite (str_eqb_sym b' b). destruct (str_eqb b b'); cbn [app map]; [|exact IH].
    unfold to_member. rewrite Ht. f_equal. exact IH.
  - exact IH.
Qed.

Lemma in_members : forall ks b kv, In kv (members ks b) <-> In kv ks /\ exists r f id, tag_of kv = Some (b, r, f, id).
Proof.
  intros ks b kv. unfold members. rewrite filter_In. unfold in_group. split.
  - intros [Hin H]. split; [exact Hin|]. destruct (tag_of kv) as [[[[b' r] f] id]|]; [|discriminate].
    apply str_eqb_eq in H. subst. eauto.
  - intros [Hin [r [f [id Ht]]]]. split; [exact Hin|]. rewrite Ht. apply str_eqb_refl.
Qed.

Lemma to_member_fields : forall kv b r f id, tag_of kv = Some (b, r, f, id) -> to_member kv = (f, fst kv, r, id).
Proof. intros kv b r f id H. unfold to_member. rewrite H. reflexivity. Qed.

Lemma in_grp : forall ks b m, In m (grp ks b) <->
  exists kv r f id, In kv ks /\ tag_of kv = Some (b, r, f, id) /\ m = (f, fst kv, r, id).
Proof.
  intros ks b m. unfold grp. rewrite in_map_iff. split.
  - intros [kv [Hm Hin]]. apply in_members in Hin. destruct Hin as [Hin [r [f [id Ht]]]].
    exists kv, r, f, id. rewrite (to_member_fields _ _ _ _ _ Ht) in Hm. auto.
  - intros [kv [r [f [id [Hin [Ht Hm]]]]]]. exists kv. split.
    + rewrite (to_member_fields _ _ _ _ _ Ht). auto.
    + apply in_members. eauto.
Qed.

Lemma existsb_map : forall (A B : Type) (f : B -> bool) (g : A -> B) l, existsb f (map g l) = existsb (fun x => f (g x)) l.
Proof. intros. induction l as [|x r IH]; cbn [map existsb]; [reflexivity|]. rewrite IH. reflexivity. Qed.
Lemma existsb_ext_in : forall (A : Type) (f g : A -> bool) l, (forall x, In x l -> f x = g x) -> existsb f l = existsb g l.
Proof.
  intros A f g l H. induction l as [|x r IH]; cbn [existsb]; [reflexivity|].
  rewrite (H x (or_introl eq_refl)), IH; [reflexivity|]. intros y Hy. apply H. right. exact Hy.
Qed.

Lemma grp_other : forall ks b, existsb is_other (grp ks b) = existsb (has_form Other) (members ks b).
Proof.
  intros ks b. unfold grp. rewrite existsb_map. apply existsb_ext_in. intros kv Hin.
  apply in_members in Hin. destruct Hin as [_ [r [f [id Ht]]]].
  unfold is_other, has_form, tag_form. rewrite (to_member_fields _ _ _ _ _ Ht), Ht. reflexivity.
Qed.

Lemma grp_mergeable : forall ks b, group_mergeable (grp ks b) = mergeable ks b.
Proof.
  intros ks b. unfold group_mergeable, mergeable. rewrite grp_other. unfold grp. rewrite map_length.
  destruct (existsb (has_form Other) (members ks b)) eqn:E; [|rewrite !andb_false_r; reflexivity].
  rewrite !andb_true_r. destruct (length (members ks b)) as [|[|n]] eqn:El; try reflexivity.
  (* length 0 is impossible when an `_other` member exists *)
  destruct (members ks b); [cbn in E; discriminate | cbn in El; discriminate].
Qed.

(** * Facts about the result of the first loop *)

Definition groups_of (ks : list (str * ival)) : gmap := snd (fold_left step1 ks ([], [])).
Definition keys0_of (ks : list (str * ival)) : kmap := fst (fold_left step1 ks ([], [])).

Lemma first_loop_sorted : forall ks keys g,
  ssorted keys -> ssorted g ->
  ssorted (fst (fold_left step1 ks (keys, g))) /\ ssorted (snd (fold_left step1 ks (keys, g))).
Proof.
  induction ks as [|[k v] r IH]; intros keys g Hk Hg; cbn [fold_left]; [split; assumption|].
  unfold step1 at 2 4. destruct (classify k v) as [[[[b' rl] f] id]|].
  - apply IH; [exact Hk | apply minsert_ssorted; exact Hg].
  - apply IH; [apply minsert_ssorted; exact Hk | exact Hg].
Qed.

Lemma first_loop_bases : forall ks keys g b,
  In b (map fst (snd (fold_left step1 ks (keys, g)))) <->
  In b (map fst g) \/ exists kv r f id, In kv ks /\ tag_of kv = Some (b, r, f, id).
Proof.
  induction ks as [|[k v] rr IH]; intros keys g b; cbn [fold_left].
  - split; [auto | intros [H | [kv [r [f [id [[] _]]]]]]; exact H].
  - unfold step1 at 2. destruct (classify k v) as [[[[b' rl] f'] id']|] eqn:Hc.
    + rewrite IH. unfold gpush. rewrite keys_minsert. split.
      * intros [[-> | H] | [kv [r [f [id [Hin Ht]]]]]].
        -- right. exists (k, v), rl, f', id'. split; [left; reflexivity | exact Hc].
        -- left. exact H.
        -- right. exists kv, r, f, id. split; [right; exact Hin | exact Ht].
      * intros [H | [kv [r [f [id [[<- | Hin] Ht]]]]]].
        -- left. right. exact H.
        -- unfold tag_of in Ht. cbn [fst snd] in Ht. rewrite Hc in Ht. inversion Ht; subst. left. left. reflexivity.
        -- right. exists kv, r, f, id. split; assumption.
    + rewrite IH. split.
      * intros [H | [kv [r [f [id [Hin Ht]]]]]]; [left; exact H | right; exists kv, r, f, id; split; [right; exact Hin | exact Ht]].
      * intros [H | [kv [r [f [id [[<- | Hin] Ht]]]]]]; [left; exact H | | right; exists kv, r, f, id; split; assumption].
        unfold tag_of in Ht. cbn [fst snd] in Ht. rewrite Hc in Ht. discriminate.
Qed.

Lemma groups_sorted : forall ks, ssorted (groups_of ks).
Proof. intros ks. apply (first_loop_sorted ks [] []); exact I. Qed.
Lemma keys0_sorted : forall ks, ssorted (keys0_of ks).
Proof. intros ks. apply (first_loop_sorted ks [] []); exact I. Qed.

Lemma groups_gget : forall ks b, gget b (groups_of ks) = grp ks b.
Proof.
  intros ks b. unfold groups_of. rewrite first_loop_groups. unfold gget at 1. cbn [mget app]. apply mem_list_members.
Qed.
Lemma groups_content : forall ks b g, In (b, g) (groups_of ks) -> g = grp ks b.
Proof.
  intros ks b g Hin. pose proof (in_mget _ _ _ (groups_sorted ks) Hin) as Hg.
  pose proof (groups_gget ks b) as H. unfold gget in H. rewrite Hg in H. exact H.
Qed.

Lemma groups_bases : forall ks b, In b (map fst (groups_of ks)) <-> members ks b <> [].
Proof.
  intros ks b. unfold groups_of. rewrite first_loop_bases. cbn [map In]. split.
  - intros [[] | [kv [r [f [id [Hin Ht]]]]]] Hm.
    assert (Hk : In kv (members ks b)) by (apply in_members; eauto). rewrite Hm in Hk. destruct Hk.
  - intros Hm. right. destruct (members ks b) as [|kv rest] eqn:E; [contradiction|].
    assert (Hk : In kv (members ks b)) by (rewrite E; left; reflexivity).
    apply in_members in Hk. destruct Hk as [Hin [r [f [id Ht]]]]. exists kv, r, f, id. auto.
Qed.

Lemma NoDup_fst_unique : forall (ks : list (str * ival)) kv1 kv2,
  NoDup (map fst ks) -> In kv1 ks -> In kv2 ks -> fst kv1 = fst kv2 -> kv1 = kv2.
Proof.
  induction ks as [|kv r IH]; intros kv1 kv2 Hnd H1 H2 Heq; [destruct H1|].
  cbn [map] in Hnd. inversion Hnd as [|? ? Hnot Hnd']; subst.
  destruct H1 as [<- | H1]; destruct H2 as [<- | H2].
  - reflexivity.
  - exfalso. apply Hnot. rewrite Heq. apply in_map. exact H2.
  - exfalso. apply Hnot. rewrite <- Heq. apply in_map. exact H1.
  - apply IH; assumption.
Qed.

Lemma keys0_sound : forall ks k v, mget k (keys0_of ks) = Some v ->
  exists kv, In kv ks /\ fst kv = k /\ tag_of kv = None /\ v = Kept (snd kv).
Proof.
  intros ks k v H. unfold keys0_of in H. rewrite first_loop_keys in H. cbn [mget] in H.
  destruct (find _ (rev ks)) as [kv|] eqn:Hf; [|discriminate]. apply find_some in Hf. destruct Hf as [Hin Hp].
  apply andb_true_iff in Hp. destruct Hp as [Hk Ht]. apply str_eqb_eq in Hk. inversion H; subst.
  exists kv. split; [apply in_rev; exact Hin|]. split; [reflexivity|]. split; [|reflexivity].
  destruct (tag_of kv); [discriminate | reflexivity].
Qed.

Lemma keys0_complete : forall ks kv, NoDup (map fst ks) -> In kv ks -> tag_of kv = None ->
  mget (fst kv) (keys0_of ks) = Some (Kept (snd kv)).
Proof.
  intros ks kv Hnd Hin Ht. unfold keys0_of. rewrite first_loop_keys. cbn [mget].
  destruct (find _ (rev ks)) as [kv'|] eqn:Hf.
  - apply find_some in Hf. destruct Hf as [Hin' Hp]. apply andb_true_iff in Hp. destruct Hp as [Hk _].
    apply str_eqb_eq in Hk. apply in_rev in Hin'.
    rewrite (NoDup_fst_unique ks kv kv' Hnd Hin Hin' Hk). reflexivity.
  - exfalso. assert (Hr : In kv (rev ks)) by (apply in_rev; rewrite rev_involutive; exact Hin).
    pose proof (find_none _ _ Hf kv Hr) as Hn. cbn beta in Hn. rewrite str_eqb_refl, Ht in Hn. discriminate.
Qed.

(** * Helper facts for the second loop *)

Lemma ssorted_split : forall (A : Type) (l1 : list (str * A)) k v l2,
  ssorted (l1 ++ (k, v) :: l2) ->
  (forall x, In x (map fst l1) -> str_ltb x k = true) /\ (forall y, In y (map fst l2) -> str_ltb k y = true).
Proof.
  intros A l1 k v l2. induction l1 as [|[k1 v1] r IH]; cbn [app ssorted]; intros H.
  - destruct H as [Hlb _]. split; [intros x [] | exact Hlb].
  - destruct H as [Hlb Hr]. destruct (IH Hr) as [H1 H2]. split; [|exact H2].
    intros x [<- | Hx]; [|apply H1; exact Hx]. apply Hlb. rewrite map_app. apply in_or_app. right. left. reflexivity.
Qed.

Lemma reinsert_ssorted : forall g keys, ssorted keys -> ssorted (reinsert g keys).
Proof.
  unfold reinsert. induction g as [|m r IH]; intros keys H; cbn [fold_left]; [exact H|]. apply IH. apply minsert_ssorted. exact H.
Qed.

Lemma mget_reinsert : forall g keys k,
  mget k (reinsert g keys) =
  match find (fun m => str_eqb k (m_key m)) (rev g) with
  | Some m => Some (Kept (Leaf (m_id m)))
  | None => mget k keys
  end.
Proof.
  unfold reinsert. induction g as [|m r IH]; intros keys k; cbn [fold_left rev]; [reflexivity|].
  rewrite IH, find_app_or. destruct (find _ (rev r)); [reflexivity|]. cbn [find]. rewrite mget_minsert.
  destruct (str_eqb k (m_key m)); reflexivity.
Qed.

Lemma in_remaining : forall ks kv, In kv (remaining ks) <-> In kv ks /\ kv_merged ks kv = false.
Proof. intros ks kv. unfold remaining. rewrite filter_In. rewrite negb_true_iff. reflexivity. Qed.

Lemma collides_iff : forall ks b, collides ks b = true <-> exists kv, In kv ks /\ kv_merged ks kv = false /\ fst kv = b.
Proof.
  intros ks b. unfold collides. rewrite existsb_exists. split.
  - intros [kv [Hin H]]. apply in_remaining in Hin. apply str_eqb_eq in H. exists kv. tauto.
  - intros [kv [Hin [Hm H]]]. exists kv. split; [apply in_remaining; tauto | apply str_eqb_eq; exact H].
Qed.

Lemma kv_merged_tag : forall ks kv b r f id, tag_of kv = Some (b, r, f, id) -> kv_merged ks kv = mergeable ks b.
Proof. intros ks kv b r f id H. unfold kv_merged. rewrite H. reflexivity. Qed.
Lemma kv_merged_none : forall ks kv, tag_of kv = None -> kv_merged ks kv = false.
Proof. intros ks kv H. unfold kv_merged. rewrite H. reflexivity. Qed.

Lemma has_rule_tag : forall kv b r f id r', tag_of kv = Some (b, r, f, id) -> has_rule r' kv = rule_eqb r r'.
Proof. intros kv b r f id r' H. unfold has_rule, tag_rule. rewrite H. reflexivity. Qed.

Lemma mixed_of_two : forall ks b kv1 kv2 r1 f1 i1 r2 f2 i2,
  In kv1 ks -> In kv2 ks -> tag_of kv1 = Some (b, r1, f1, i1) -> tag_of kv2 = Some (b, r2, f2, i2) -> r1 <> r2 ->
  mixed ks b = true.
Proof.
  intros ks b kv1 kv2 r1 f1 i1 r2 f2 i2 H1 H2 T1 T2 Hne. unfold mixed.
  assert (M1 : In kv1 (members ks b)) by (apply in_members; eauto).
  assert (M2 : In kv2 (members ks b)) by (apply in_members; eauto).
  apply andb_true_iff. split; apply existsb_exists.
  - destruct r1, r2; try contradiction.
    + exists kv1. split; [exact M1|]. rewrite (has_rule_tag _ _ _ _ _ _ T1). reflexivity.
    + exists kv2. split; [exact M2|]. rewrite (has_rule_tag _ _ _ _ _ _ T2). reflexivity.
  - destruct r1, r2; try contradiction.
    + exists kv2. split; [exact M2|]. rewrite (has_rule_tag _ _ _ _ _ _ T2). reflexivity.
    + exists kv1. split; [exact M1|]. rewrite (has_rule_tag _ _ _ _ _ _ T1). reflexivity.
Qed.

Lemma split_last_snoc : forall (A : Type) (l : list A) x, split_last (l ++ [x]) = Some (l, x).
Proof.
  intros A. induction l as [|y r IH]; intros x; cbn [app split_last]; [reflexivity|].
  rewrite IH. destruct (r ++ [x]) eqn:E; [destruct r; discriminate | reflexivity].
Qed.
Lemma path_eqb_refl : forall p, path_eqb p p = true.
Proof. induction p as [|x r IH]; cbn [path_eqb]; [reflexivity|]. rewrite str_eqb_refl. exact IH. Qed.

(** * The second loop, globally *)

Lemma group_invalid : forall is_key cats path b g rest keys ws,
  group_mergeable g = true -> is_key b = false -> loop2 is_key cats path ((b, g) :: rest) keys ws = RErr EInvalid [b].
Proof.
  intros is_key cats path b g rest keys ws Hm Hk. cbn [loop2]. unfold group_mergeable in Hm.
  apply andb_true_iff in Hm. destruct Hm as [Hlen Hoth]. apply negb_true_iff in Hlen. rewrite Hlen, Hoth. cbn [negb orb].
  destruct (remove_first_other_some g Hoth) as [o [others Hr]]. rewrite Hr, Hk. reflexivity.
Qed.

Section Global.
  Variable is_key : str -> bool.
  Variable cats : rule -> list form.
  Variable path : list str.
  Variable ks : list (str * ival).
  Hypothesis Hnd : NoDup (map fst ks).

  (** a key whose group (if any) has been processed *)
  Definition settled (pre : gmap) (kv : str * ival) : Prop :=
    match tag_of kv with None => True | Some (b, _, _, _) => In b (map fst pre) end.

  Definition plural_node (b : str) : option oval :=
    match remove_first_other (grp ks b) with
    | Some (o, others) => Some (PluralV (m_rule o) (m_id o) (build_forms others []))
    | None => None
    end.

  Record LInv (pre : gmap) (keys : kmap) : Prop := mk_linv {
    li_sorted : ssorted keys;
    li_sound : forall k v, mget k keys = Some v ->
      (exists kv, In kv ks /\ fst kv = k /\ v = Kept (snd kv) /\ kv_merged ks kv = false /\ settled pre kv)
      \/ (In k (map fst pre) /\ mergeable ks k = true /\ plural_node k = Some v);
    li_complete : forall kv, In kv ks -> kv_merged ks kv = false -> settled pre kv ->
      mget (fst kv) keys = Some (Kept (snd kv));
    li_plural : forall b, In b (map fst pre) -> mergeable ks b = true ->
      mixed ks b = false /\ collides ks b = false /\ is_key b = true /\
      exists v, plural_node b = Some v /\ mget b keys = Some v }.

  Lemma settled_mono : forall pre x kv, settled pre kv -> settled (pre ++ x) kv.
  Proof.
    intros pre x kv H. unfold settled in *. destruct (tag_of kv) as [[[[b r] f] id]|]; [|exact I].
    rewrite map_app. apply in_or_app. left. exact H.
  Qed.

  Lemma tag_leaf : forall kv b r f id, tag_of kv = Some (b, r, f, id) -> snd kv = Leaf id.
  Proof. intros kv b r f id H. unfold tag_of in H. apply classify_shape in H. apply H. Qed.

  Lemma linv_start : LInv [] (keys0_of ks).
  Proof.
    constructor.
    - apply keys0_sorted.
    - intros k v H. left. destruct (keys0_sound _ _ _ H) as [kv [Hin [Hk [Ht Hv]]]].
      exists kv. repeat split; auto. + apply kv_merged_none. exact Ht. + unfold settled. rewrite Ht. exact I.
    - intros kv Hin Hm Hs. unfold settled in Hs. destruct (tag_of kv) as [[[[b r] f] id]|] eqn:Ht; [destruct Hs|].
      apply keys0_complete; assumption.
    - intros b [].
  Qed.

  Lemma linv_escape : forall pre keys b g,
    LInv pre keys -> g = grp ks b -> mergeable ks b = false ->
    (forall x, In x (map fst pre) -> str_ltb x b = true) ->
    LInv (pre ++ [(b, g)]) (reinsert g keys).
  Proof.
    intros pre keys b g [Hs Hsound Hcompl Hpl] Hg Hm Hpre. constructor.
    - apply reinsert_ssorted. exact Hs.
    - intros k v H. rewrite mget_reinsert in H.
      destruct (find (fun m => str_eqb k (m_key m)) (rev g)) as [m|] eqn:Hf.
      + apply find_some in Hf. destruct Hf as [Hin Hk]. apply str_eqb_eq in Hk. apply in_rev in Hin. rewrite Hg in Hin.
        apply in_grp in Hin. destruct Hin as [kv [r [f [id [Hin [Ht Hmm]]]]]]. subst m. cbn [m_key m_id] in *.
        inversion H; subst. left. exists kv. split; [exact Hin|]. split; [reflexivity|].
        split; [rewrite (tag_leaf _ _ _ _ _ Ht); reflexivity|]. split; [rewrite (kv_merged_tag _ _ _ _ _ _ Ht); exact Hm|].
        unfold settled. rewrite Ht, map_app. apply in_or_app. right. left. reflexivity.
      + destruct (Hsound k v H) as [[kv [Hin [Hk [Hv [Hkm Hst]]]]] | [Hin [Hmg Hpn]]].
        * left. exists kv. repeat split; auto. apply settled_mono. exact Hst.
        * right. split; [rewrite map_app; apply in_or_app; left; exact Hin | auto].
    - intros kv Hin Hkm Hst. rewrite mget_reinsert.
      destruct (find (fun m => str_eqb (fst kv) (m_key m)) (rev g)) as [m|] eqn:Hf.
      + apply find_some in Hf. destruct Hf as [Hinm Hk]. apply str_eqb_eq in Hk. apply in_rev in Hinm. rewrite Hg in Hinm.
        apply in_grp in Hinm. destruct Hinm as [kv' [r [f [id [Hin' [Ht Hmm]]]]]]. subst m. cbn [m_key m_id] in *.
        rewrite (NoDup_fst_unique ks kv kv' Hnd Hin Hin' Hk). rewrite (tag_leaf _ _ _ _ _ Ht). reflexivity.
      + apply Hcompl; [exact Hin | exact Hkm |]. unfold settled in *.
        destruct (tag_of kv) as [[[[b0 r] f] id]|] eqn:Ht; [|exact I].
        rewrite map_app in Hst. apply in_app_or in Hst. destruct Hst as [Hst | [Hb | []]]; [exact Hst|].
        cbn [fst] in Hb. subst b0. exfalso.
        assert (Hmem : In (f, fst kv, r, id) (rev g)).
        { apply in_rev. rewrite rev_involutive, Hg. apply in_grp. exists kv, r, f, id. auto. }
        pose proof (find_none _ _ Hf _ Hmem) as Hn. cbn [m_key] in Hn. rewrite str_eqb_refl in Hn. discriminate.
    - intros b' Hin' Hmg. rewrite map_app in Hin'. apply in_app_or in Hin'. destruct Hin' as [Hin' | [Hb | []]].
      2: { cbn [fst] in Hb. subst b'. congruence. }
      destruct (Hpl b' Hin' Hmg) as [Hmx [Hco [Hik [v [Hpn Hget]]]]]. repeat split; auto.
      exists v. split; [exact Hpn|]. rewrite mget_reinsert.
      destruct (find (fun m => str_eqb b' (m_key m)) (rev g)) as [m|] eqn:Hf; [|exact Hget]. exfalso.
      apply find_some in Hf. destruct Hf as [Hinm Hk]. apply str_eqb_eq in Hk. apply in_rev in Hinm. rewrite Hg in Hinm.
      apply in_grp in Hinm. destruct Hinm as [kv [r [f [id [Hin [Ht Hmm]]]]]]. subst m. cbn [m_key] in Hk.
      unfold tag_of in Ht. apply base_lt_key in Ht. rewrite <- Hk in Ht.
      pose proof (Hpre b' Hin') as Hlt. rewrite (str_ltb_asym _ _ Hlt) in Ht. discriminate.
  Qed.

  Lemma linv_merge : forall pre keys b g rest v,
    LInv pre keys -> groups_of ks = pre ++ (b, g) :: rest ->
    mergeable ks b = true -> mixed ks b = false -> is_key b = true -> mmem b keys = false -> plural_node b = Some v ->
    LInv (pre ++ [(b, g)]) (minsert b v keys).
  Proof.
    intros pre keys b g rest v [Hs Hsound Hcompl Hpl] HG Hm Hmx Hik Hmm Hpn.
    pose proof (groups_sorted ks) as HGs. rewrite HG in HGs. destruct (ssorted_split _ _ _ _ _ HGs) as [Hpre Hrest].
    assert (Hnb : mget b keys = None) by (unfold mmem in Hmm; destruct (mget b keys); [discriminate | reflexivity]).
    constructor.
    - apply minsert_ssorted. exact Hs.
    - intros k v' H. rewrite mget_minsert in H. destruct (str_eqb k b) eqn:E.
      + apply str_eqb_eq in E. subst k. inversion H; subst v'. right.
        split; [rewrite map_app; apply in_or_app; right; left; reflexivity | auto].
      + destruct (Hsound k v' H) as [[kv [Hin [Hk [Hv [Hkm Hst]]]]] | [Hin [Hmg Hpn']]].
        * left. exists kv. repeat split; auto. apply settled_mono. exact Hst.
        * right. split; [rewrite map_app; apply in_or_app; left; exact Hin | auto].
    - intros kv Hin Hkm Hst. rewrite mget_minsert.
      assert (Hst' : settled pre kv).
      { unfold settled in *. destruct (tag_of kv) as [[[[b0 r] f] id]|] eqn:Ht; [|exact I].
        rewrite map_app in Hst. apply in_app_or in Hst. destruct Hst as [Hst | [Hb | []]]; [exact Hst|].
        cbn [fst] in Hb. subst b0. rewrite (kv_merged_tag _ _ _ _ _ _ Ht) in Hkm. congruence. }
      pose proof (Hcompl kv Hin Hkm Hst') as Hget.
      destruct (str_eqb (fst kv) b) eqn:E; [|exact Hget].
      apply str_eqb_eq in E. rewrite E in Hget. congruence.
    - intros b' Hin' Hmg. rewrite map_app in Hin'. apply in_app_or in Hin'. destruct Hin' as [Hin' | [Hb | []]].
      + destruct (Hpl b' Hin' Hmg) as [Hmx' [Hco [Hik' [v' [Hpn' Hget]]]]]. repeat split; auto.
        exists v'. split; [exact Hpn'|]. rewrite mget_minsert. destruct (str_eqb b' b) eqn:E; [|exact Hget].
        apply str_eqb_eq in E. subst b'. congruence.
      + cbn [fst] in Hb. subst b'. split; [exact Hmx|]. split; [|split; [exact Hik|]].
        * destruct (collides ks b) eqn:Hc; [|reflexivity]. exfalso. apply collides_iff in Hc.
          destruct Hc as [kv [Hin [Hkm Hk]]].
          destruct (tag_of kv) as [[[[b0 r] f] id]|] eqn:Ht.
          -- assert (Hb0 : In b0 (map fst (groups_of ks))).
             { apply groups_bases. intros Hnil. assert (Hk' : In kv (members ks b0)) by (apply in_members; eauto).
               rewrite Hnil in Hk'. destruct Hk'. }
             rewrite HG, map_app in Hb0. apply in_app_or in Hb0. cbn [map fst In] in Hb0.
             destruct Hb0 as [Hb0 | [Hb0 | Hb0]].
             ++ assert (Hst : settled pre kv) by (unfold settled; rewrite Ht; exact Hb0).
                pose proof (Hcompl kv Hin Hkm Hst) as Hget. rewrite Hk in Hget. congruence.
             ++ subst b0. rewrite (kv_merged_tag _ _ _ _ _ _ Ht) in Hkm. congruence.
             ++ pose proof (Hrest b0 Hb0) as Hlt. unfold tag_of in Ht. apply base_lt_key in Ht. rewrite Hk in Ht.
                rewrite (str_ltb_asym _ _ Hlt) in Ht. discriminate.
          -- assert (Hst : settled pre kv) by (unfold settled; rewrite Ht; exact I).
             pose proof (Hcompl kv Hin Hkm Hst) as Hget. rewrite Hk in Hget. congruence.
        * exists v. split; [exact Hpn|]. rewrite mget_minsert, str_eqb_refl. reflexivity.
  Qed.
End Global.

Section Global2.
  Variable is_key : str -> bool.
  Variable cats : rule -> list form.
  Variable path : list str.
  Variable ks : list (str * ival).
  Hypothesis Hnd : NoDup (map fst ks).

  Lemma mixed_witness : forall b, mixed ks b = true ->
    exists m1 m2, In m1 (grp ks b) /\ In m2 (grp ks b) /\ m_rule m1 <> m_rule m2.
  Proof.
    intros b H. unfold mixed in H. apply andb_true_iff in H. destruct H as [H1 H2].
    apply existsb_exists in H1. destruct H1 as [kv1 [M1 R1]]. apply existsb_exists in H2. destruct H2 as [kv2 [M2 R2]].
    apply in_members in M1. destruct M1 as [I1 [r1 [f1 [i1 T1]]]]. apply in_members in M2. destruct M2 as [I2 [r2 [f2 [i2 T2]]]].
    rewrite (has_rule_tag _ _ _ _ _ _ T1) in R1. rewrite (has_rule_tag _ _ _ _ _ _ T2) in R2.
    apply rule_eqb_eq in R1. apply rule_eqb_eq in R2. subst r1 r2.
    exists (f1, fst kv1, Cardinal, i1), (f2, fst kv2, Ordinal, i2).
    split; [apply in_grp; exists kv1, Cardinal, f1, i1; auto|]. split; [apply in_grp; exists kv2, Ordinal, f2, i2; auto|].
    cbn [m_rule]. discriminate.
  Qed.

  Lemma not_mixed_uniform : forall b, mixed ks b = false ->
    forall m1 m2, In m1 (grp ks b) -> In m2 (grp ks b) -> m_rule m1 = m_rule m2.
  Proof.
    intros b H m1 m2 H1 H2. apply in_grp in H1. destruct H1 as [kv1 [r1 [f1 [i1 [I1 [T1 ->]]]]]].
    apply in_grp in H2. destruct H2 as [kv2 [r2 [f2 [i2 [I2 [T2 ->]]]]]]. cbn [m_rule].
    destruct r1, r2; try reflexivity; exfalso.
    - rewrite (mixed_of_two ks b kv1 kv2 _ _ _ _ _ _ I1 I2 T1 T2) in H; discriminate.
    - rewrite (mixed_of_two ks b kv1 kv2 _ _ _ _ _ _ I1 I2 T1 T2) in H; discriminate.
  Qed.

  Definition group_warns (bg : str * list member) : list warning :=
    if group_mergeable (snd bg) then
      match remove_first_other (snd bg) with
      | Some (o, others) => unused cats (path ++ [fst bg]) (m_rule o) (build_forms others [])
      | None => []
      end
    else [].

  Definition outcome (pre gs : gmap) (ws : list warning) (r : res) : Prop :=
    match r with
    | ROk out ws' => LInv is_key ks (pre ++ gs) out /\ ws' = ws ++ flat_map group_warns gs
    | RErr EConflict p => exists b, p = path ++ [b] /\ mergeable ks b = true /\ mixed ks b = true
    | RErr ECollide p => exists b, p = path ++ [b] /\ mergeable ks b = true /\ collides ks b = true
    | RErr EInvalid p => exists b, p = [b] /\ mergeable ks b = true /\ is_key b = false
    | RPanic => False
    end.

  Lemma outcome_shift : forall pre b g rest ws ws1 r,
    ws1 = ws ++ group_warns (b, g) ->
    outcome (pre ++ [(b, g)]) rest ws1 r -> outcome pre ((b, g) :: rest) ws r.
  Proof.
    intros pre b g rest ws ws1 r Hw H. destruct r as [out ws'|[| |] p|]; cbn [outcome] in *; try exact H.
    destruct H as [Hinv Hws]. rewrite <- app_assoc in Hinv. cbn [app] in Hinv. split; [exact Hinv|].
    cbn [flat_map]. rewrite Hws, Hw, <- app_assoc. reflexivity.
  Qed.

  Lemma loop2_correct : forall gs pre keys ws,
    groups_of ks = pre ++ gs -> LInv is_key ks pre keys ->
    outcome pre gs ws (loop2 is_key cats path gs keys ws).
  Proof.
    induction gs as [|[b g] rest IH]; intros pre keys ws HG Hinv.
    - cbn [loop2 outcome flat_map]. rewrite !app_nil_r. split; [exact Hinv | reflexivity].
    - assert (Hg : g = grp ks b).
      { apply groups_content. rewrite HG. apply in_or_app. right. left. reflexivity. }
      pose proof (groups_sorted ks) as HGs. rewrite HG in HGs. destruct (ssorted_split _ _ _ _ _ HGs) as [Hpre Hrest].
      assert (HG' : groups_of ks = (pre ++ [(b, g)]) ++ rest) by (rewrite <- app_assoc; exact HG).
      assert (Hnotpre : ~ In b (map fst pre)).
      { intros Hin. pose proof (Hpre b Hin) as Hlt. rewrite str_ltb_irrefl in Hlt. discriminate. }
      destruct (group_mergeable g) eqn:Hgm.
      + assert (Hm : mergeable ks b = true) by (rewrite <- grp_mergeable, <- Hg; exact Hgm).
        destruct (is_key b) eqn:Hik.
        2: { rewrite (group_invalid is_key cats path b g rest keys ws Hgm Hik). cbn [outcome]. exists b. auto. }
        destruct (mixed ks b) eqn:Hmx.
        * destruct (mixed_witness b Hmx) as [m1 [m2 [H1 [H2 Hne]]]]. rewrite <- Hg in H1, H2.
          rewrite (group_conflict is_key cats path b g rest keys ws m1 m2 Hgm Hik H1 H2 Hne).
          cbn [outcome]. exists b. auto.
        * assert (Hun : forall m1 m2, In m1 g -> In m2 g -> m_rule m1 = m_rule m2).
          { intros m1 m2 H1 H2. rewrite Hg in H1, H2. apply (not_mixed_uniform b Hmx); assumption. }
          destruct (group_merge is_key cats path b g rest keys ws Hgm Hik Hun) as [o [others [Hr [Ho [Hin Hloop]]]]].
          rewrite Hloop. destruct (mmem b keys) eqn:Hmm.
          -- cbn [outcome]. exists b. split; [reflexivity|]. split; [exact Hm|].
             unfold mmem in Hmm. destruct (mget b keys) as [v|] eqn:Hget; [|discriminate].
             destruct (li_sound _ _ _ _ Hinv b v Hget) as [[kv [Hkin [Hk [Hv [Hkm Hst]]]]] | [Hbin _]]; [|contradiction].
             apply collides_iff. exists kv. auto.
          -- assert (Hpn : plural_node ks b = Some (PluralV (m_rule o) (m_id o) (build_forms others []))).
             { unfold plural_node. rewrite <- Hg, Hr. reflexivity. }
             pose proof (linv_merge is_key ks pre keys b g rest _ Hinv HG Hm Hmx Hik Hmm Hpn) as Hinv'.
             apply (outcome_shift pre b g rest ws _ _ eq_refl).
             unfold group_warns at 1. cbn [fst snd]. rewrite Hgm, Hr. apply IH; assumption.
      + assert (Hm : mergeable ks b = false) by (rewrite <- grp_mergeable, <- Hg; exact Hgm).
        rewrite (group_escape is_key cats path b g rest keys ws Hgm).
        pose proof (linv_escape is_key ks Hnd pre keys b g Hinv Hg Hm Hpre) as Hinv'.
        apply (outcome_shift pre b g rest ws ws).
        * unfold group_warns. cbn [snd]. rewrite Hgm, app_nil_r. reflexivity.
        * apply IH; assumption.
  Qed.
End Global2.

(** * From the invariant to the executable specification *)

Lemma mem_str_In : forall k l, mem_str k l = true <-> In k l.
Proof.
  intros k l. unfold mem_str. rewrite existsb_exists. split.
  - intros [x [Hin H]]. apply str_eqb_eq in H. subst. exact Hin.
  - intros H. exists k. split; [exact H | apply str_eqb_refl].
Qed.

Lemma in_keys_mget : forall (A : Type) k (m : list (str * A)), In k (map fst m) -> exists v, mget k m = Some v.
Proof.
  intros A k m H. destruct (mget k m) as [v|] eqn:E; [eauto|]. apply mget_none_iff in E. contradiction.
Qed.

Lemma mergeable_members : forall ks b, mergeable ks b = true -> members ks b <> [].
Proof.
  intros ks b H Hnil. unfold mergeable in H. rewrite Hnil in H. cbn in H. discriminate.
Qed.

Lemma in_merged_bases : forall ks b, In b (merged_bases ks) <-> mergeable ks b = true.
Proof.
  intros ks b. unfold merged_bases. rewrite in_flat_map. split.
  - intros [kv [Hin H]]. destruct (tag_of kv) as [[[[b0 r] f] id]|]; [|destruct H].
    destruct (mergeable ks b0) eqn:E; [|destruct H]. destruct H as [<- | []]. exact E.
  - intros H. pose proof (mergeable_members _ _ H) as Hne. destruct (members ks b) as [|kv rest] eqn:E; [contradiction|].
    assert (Hk : In kv (members ks b)) by (rewrite E; left; reflexivity). apply in_members in Hk.
    destruct Hk as [Hin [r [f [id Ht]]]]. exists kv. split; [exact Hin|]. rewrite Ht, H. left. reflexivity.
Qed.

Lemma finsert_in : forall f v f' v' m, In (f, v) (finsert f' v' m) -> (f = f' /\ v = v') \/ In (f, v) m.
Proof.
  intros f v f' v' m. induction m as [|[f2 v2] r IH]; cbn [finsert]; intros H.
  - destruct H as [H | []]. inversion H. auto.
  - destruct (form_ltb f' f2).
    + destruct H as [H | H]; [inversion H; auto | right; exact H].
    + destruct (form_eqb f' f2).
      * destruct H as [H | H]; [inversion H; auto | right; right; exact H].
      * destruct H as [H | H]; [right; left; exact H|]. destruct (IH H) as [A | A]; [left; exact A | right; right; exact A].
Qed.

Lemma build_forms_in : forall others acc f v,
  In (f, v) (build_forms others acc) -> (exists m, In m others /\ m_form m = f) \/ In (f, v) acc.
Proof.
  induction others as [|m r IH]; intros acc f v H; cbn [build_forms fold_left] in H; [right; exact H|].
  fold (build_forms r (finsert (m_form m) (m_id m) acc)) in H.
  destruct (IH _ _ _ H) as [[m' [Hin Hf]] | Hacc].
  - left. exists m'. split; [right; exact Hin | exact Hf].
  - apply finsert_in in Hacc. destruct Hacc as [[Hf _] | Hacc]; [|right; exact Hacc].
    left. exists m. split; [left; reflexivity | symmetry; exact Hf].
Qed.

Lemma fget_in : forall f m v, fget f m = Some v -> In (f, v) m.
Proof.
  intros f m v. induction m as [|[f2 v2] r IH]; cbn [fget]; [discriminate|].
  destruct (form_eqb f f2) eqn:E; intros H.
  - apply form_eqb_eq in E. subst. inversion H. left. reflexivity.
  - right. apply IH. exact H.
Qed.

Lemma remove_first_other_notin : forall g o others,
  NoDup g -> remove_first_other g = Some (o, others) -> ~ In o others.
Proof.
  induction g as [|m r IH]; intros o others Hnd H; cbn [remove_first_other] in H; [discriminate|].
  inversion Hnd as [|? ? Hnot Hnd']; subst. destruct (is_other m).
  - inversion H; subst. exact Hnot.
  - destruct (remove_first_other r) as [[o' r']|] eqn:Hr; [|discriminate]. inversion H; subst.
    intros [Heq | Hin].
    + subst m. apply Hnot. apply (remove_first_other_spec _ _ _ Hr). left. reflexivity.
    + apply (IH _ _ Hnd' eq_refl). exact Hin.
Qed.

Lemma NoDup_map_filter : forall (A B : Type) (f : A -> B) (p : A -> bool) l, NoDup (map f l) -> NoDup (map f (filter p l)).
Proof.
  intros A B f p l. induction l as [|x r IH]; cbn [map filter]; intros H; [constructor|].
  inversion H as [|? ? Hnot Hnd]; subst. destruct (p x); [|apply IH; exact Hnd].
  cbn [map]. constructor; [|apply IH; exact Hnd]. intros Hin. apply Hnot.
  apply in_map_iff in Hin. destruct Hin as [y [Hy Hin]]. apply filter_In in Hin. apply in_map_iff. exists y. tauto.
Qed.

Lemma m_key_to_member : forall kv, m_key (to_member kv) = fst kv.
Proof. intros kv. unfold to_member. destruct (tag_of kv) as [[[[b r] f] id]|]; reflexivity. Qed.

Lemma NoDup_grp : forall ks b, NoDup (map fst ks) -> NoDup (grp ks b).
Proof.
  intros ks b H. apply (NoDup_map_inv m_key). unfold grp. rewrite map_map.
  rewrite (map_ext _ fst m_key_to_member). apply NoDup_map_filter. exact H.
Qed.

Lemma warning_eqb_refl : forall w, warning_eqb w w = true.
Proof.
  intros [[p f] r]. unfold warning_eqb. rewrite path_eqb_refl, form_eqb_refl. destruct r; reflexivity.
Qed.
Lemma incl_b_of_In : forall ws1 ws2, (forall w, In w ws1 -> In w ws2) -> incl_b warning_eqb ws1 ws2 = true.
Proof.
  intros ws1 ws2 H. unfold incl_b. apply forallb_forall. intros w Hw. apply existsb_exists. exists w.
  split; [apply H; exact Hw | apply warning_eqb_refl].
Qed.

Lemma in_written : forall ks b c id,
  In id (written ks b c) <-> exists kv r, In kv ks /\ tag_of kv = Some (b, r, c, id).
Proof.
  intros ks b c id. unfold written. rewrite in_map_iff. split.
  - intros [kv [Hid Hin]]. apply filter_In in Hin. destruct Hin as [Hm Hf]. apply in_members in Hm.
    destruct Hm as [Hin [r [f [i Ht]]]]. unfold has_form, tag_form in Hf. unfold tag_id in Hid. rewrite Ht in Hf, Hid.
    apply form_eqb_eq in Hf. subst. eauto.
  - intros [kv [r [Hin Ht]]]. exists kv. split; [unfold tag_id; rewrite Ht; reflexivity|].
    apply filter_In. split; [apply in_members; eauto|]. unfold has_form, tag_form. rewrite Ht. apply form_eqb_refl.
Qed.

Section Final.
  Variable is_key : str -> bool.
  Variable cats : rule -> list form.
  Variable path : list str.
  Variable ks : list (str * ival).
  Hypothesis Hnd : NoDup (map fst ks).

  (** the `_other` member and the rest of a group with one rule type: no second `_other` *)
  Lemma others_no_other : forall b o others,
    mixed ks b = false -> remove_first_other (grp ks b) = Some (o, others) ->
    forall m, In m others -> is_other m = false.
  Proof.
    intros b o others Hmx Hr m Hin. destruct (is_other m) eqn:Hm; [|reflexivity]. exfalso.
    destruct (remove_first_other_spec _ _ _ Hr) as [Ho [Hg _]].
    assert (Hmg : In m (grp ks b)) by (apply Hg; right; exact Hin).
    assert (Hog : In o (grp ks b)) by (apply Hg; left; reflexivity).
    pose proof (not_mixed_uniform ks b Hmx m o Hmg Hog) as Hrule.
    apply in_grp in Hmg. destruct Hmg as [kv1 [r1 [f1 [i1 [I1 [T1 E1]]]]]].
    apply in_grp in Hog. destruct Hog as [kv2 [r2 [f2 [i2 [I2 [T2 E2]]]]]].
    subst m o. cbn [m_rule] in Hrule. subst r2. unfold is_other in Hm, Ho. cbn [m_form] in Hm, Ho.
    apply form_eqb_eq in Hm. apply form_eqb_eq in Ho. subst f1 f2.
    assert (Hk : fst kv1 = fst kv2) by (unfold tag_of in T1, T2; apply (classify_inj _ _ _ _ _ _ _ _ _ T1 T2)).
    pose proof (NoDup_fst_unique ks kv1 kv2 Hnd I1 I2 Hk) as Heq. subst kv2. rewrite T1 in T2. inversion T2; subst i2.
    apply (remove_first_other_notin _ _ _ (NoDup_grp ks b Hnd) Hr). exact Hin.
  Qed.

  Lemma plural_ok_node : forall b v,
    mergeable ks b = true -> mixed ks b = false -> plural_node ks b = Some v -> plural_ok ks b (Some v) = true.
  Proof.
    intros b v Hm Hmx Hpn. unfold plural_node in Hpn.
    destruct (remove_first_other (grp ks b)) as [[o others]|] eqn:Hr; [|discriminate]. inversion Hpn; subst v. clear Hpn.
    destruct (remove_first_other_spec _ _ _ Hr) as [Ho [Hg _]].
    pose proof (others_no_other b o others Hmx Hr) as Hno.
    assert (Hog : In o (grp ks b)) by (apply Hg; left; reflexivity).
    assert (Hoid : In (m_id o) (written ks b Other)).
    { apply in_grp in Hog. destruct Hog as [kv [r [f [id [Hin [Ht E]]]]]]. subst o. unfold is_other in Ho. cbn [m_form m_id] in *.
      apply form_eqb_eq in Ho. subst f. apply in_written. eauto. }
    unfold plural_ok. apply andb_true_iff. split; [apply andb_true_iff; split|].
    - apply forallb_forall. intros kv Hin. apply in_members in Hin. destruct Hin as [Hin [r [f [id Ht]]]].
      rewrite (has_rule_tag _ _ _ _ _ _ Ht). apply rule_eqb_eq.
      assert (Hmg : In (f, fst kv, r, id) (grp ks b)) by (apply in_grp; exists kv, r, f, id; auto).
      apply (not_mixed_uniform ks b Hmx _ _ Hmg Hog).
    - apply forallb_forall. intros c _.
      assert (Hsel : (exists id, In id (written ks b c) /\ select_match (m_id o) (build_forms others []) c = id)
                     \/ (written ks b c = [] \/ c = Other) /\ select_match (m_id o) (build_forms others []) c = m_id o).
      { unfold select_match. destruct (fget_build_forms others [] c) as [[m [Hin [Hf Hget]]] | [Hnone Hget]].
        - left. exists (m_id m). rewrite Hget. split; [|reflexivity].
          assert (Hmg : In m (grp ks b)) by (apply Hg; right; exact Hin).
          apply in_grp in Hmg. destruct Hmg as [kv [r [f [id [Hkin [Ht E]]]]]]. subst m. cbn [m_form m_id] in *. subst f.
          apply in_written. eauto.
        - right. rewrite Hget. cbn [fget]. split; [|reflexivity].
          destruct (written ks b c) as [|id rest] eqn:Ew; [left; reflexivity|]. right.
          assert (Hid : In id (written ks b c)) by (rewrite Ew; left; reflexivity).
          apply in_written in Hid. destruct Hid as [kv [r [Hkin Ht]]].
          assert (Hmg : In (c, fst kv, r, id) (grp ks b)) by (apply in_grp; exists kv, r, c, id; auto).
          apply Hg in Hmg. destruct Hmg as [Heq | Hin].
          + rewrite <- Heq in Ho. unfold is_other in Ho. cbn [m_form] in Ho. apply form_eqb_eq in Ho. exact Ho.
          + exfalso. apply (Hnone _ Hin). reflexivity. }
      destruct Hsel as [[id [Hid Hs]] | [[Hw | Hc] Hs]].
      + rewrite Hs. destruct (written ks b c) as [|x rest] eqn:Ew; [destruct Hid|].
        apply existsb_exists. exists id. split; [exact Hid | apply N.eqb_refl].
      + rewrite Hw, Hs. apply existsb_exists. exists (m_id o). split; [exact Hoid | apply N.eqb_refl].
      + subst c. rewrite Hs. destruct (written ks b Other) as [|x rest] eqn:Ew; [destruct Hoid|].
        apply existsb_exists. exists (m_id o). split; [exact Hoid | apply N.eqb_refl].
    - apply forallb_forall. intros c _. apply N.eqb_eq. apply select_cat_match. apply build_forms_no_other. exact Hno.
  Qed.

  (** warnings of the model = expected warnings, as sets *)
  Lemma warns_sound : forall out w,
    LInv is_key ks (groups_of ks) out ->
    In w (flat_map (group_warns cats path) (groups_of ks)) -> In w (expected_warnings cats path ks).
  Proof.
    intros out w Hinv Hw. apply in_flat_map in Hw. destruct Hw as [[b g] [HinG Hw]].
    pose proof (groups_content ks b g HinG) as Hg. unfold group_warns in Hw. cbn [fst snd] in Hw.
    destruct (group_mergeable g) eqn:Hgm; [|destruct Hw].
    assert (Hm : mergeable ks b = true) by (rewrite <- grp_mergeable, <- Hg; exact Hgm).
    destruct (remove_first_other g) as [[o others]|] eqn:Hr; [|destruct Hw].
    assert (HbG : In b (map fst (groups_of ks))) by (apply in_map_iff; exists (b, g); auto).
    destruct (li_plural _ _ _ _ Hinv b HbG Hm) as [Hmx _].
    destruct w as [[p f] r]. apply unused_correct in Hw. destruct Hw as [-> [-> [[v Hfv] Hnc]]].
    apply build_forms_in in Hfv. destruct Hfv as [[m [Hmin Hmf]] | []].
    rewrite Hg in Hr. destruct (remove_first_other_spec _ _ _ Hr) as [Ho [Hgin _]].
    assert (Hmg : In m (grp ks b)) by (apply Hgin; right; exact Hmin).
    assert (Hog : In o (grp ks b)) by (apply Hgin; left; reflexivity).
    pose proof (not_mixed_uniform ks b Hmx m o Hmg Hog) as Hrule.
    pose proof (others_no_other b o others Hmx Hr m Hmin) as Hnoth.
    apply in_grp in Hmg. destruct Hmg as [kv [r' [f' [id [Hkin [Ht E]]]]]]. subst m. cbn [m_form m_rule] in *. subst f'.
    unfold expected_warnings. apply in_flat_map. exists kv. split; [exact Hkin|]. rewrite Ht, Hm. cbn [andb].
    unfold is_other in Hnoth. cbn [m_form] in Hnoth. rewrite Hnoth. cbn [negb andb]. rewrite <- Hrule in Hnc.
    destruct (existsb (form_eqb f) (cats r')) eqn:He; [apply existsb_form in He; contradiction|].
    cbn [negb]. left. rewrite Hrule. reflexivity.
  Qed.

  Lemma warns_complete : forall out w,
    LInv is_key ks (groups_of ks) out ->
    In w (expected_warnings cats path ks) -> In w (flat_map (group_warns cats path) (groups_of ks)).
  Proof.
    intros out w Hinv Hw. unfold expected_warnings in Hw. apply in_flat_map in Hw. destruct Hw as [kv [Hkin Hw]].
    destruct (tag_of kv) as [[[[b r] f] id]|] eqn:Ht; [|destruct Hw].
    destruct (mergeable ks b) eqn:Hm; [|destruct Hw]. cbn [andb] in Hw.
    destruct (form_eqb f Other) eqn:Hfo; [destruct Hw|]. cbn [negb andb] in Hw.
    destruct (existsb (form_eqb f) (cats r)) eqn:He; [destruct Hw|]. destruct Hw as [<- | []].
    assert (HbG : In b (map fst (groups_of ks))).
    { apply groups_bases. intros Hnil. assert (Hk : In kv (members ks b)) by (apply in_members; eauto). rewrite Hnil in Hk. destruct Hk. }
    destruct (li_plural _ _ _ _ Hinv b HbG Hm) as [Hmx _].
    apply in_map_iff in HbG. destruct HbG as [[b' g] [Hb HinG]]. cbn [fst] in Hb. subst b'.
    pose proof (groups_content ks b g HinG) as Hg.
    apply in_flat_map. exists (b, g). split; [exact HinG|]. unfold group_warns. cbn [fst snd].
    assert (Hgm : group_mergeable g = true) by (rewrite Hg, grp_mergeable; exact Hm). rewrite Hgm.
    assert (Hoth : existsb is_other g = true) by (unfold group_mergeable in Hgm; apply andb_true_iff in Hgm; apply Hgm).
    destruct (remove_first_other_some g Hoth) as [o [others Hr]]. rewrite Hr. rewrite Hg in Hr.
    destruct (remove_first_other_spec _ _ _ Hr) as [Ho [Hgin _]].
    assert (Hmg : In (f, fst kv, r, id) (grp ks b)) by (apply in_grp; exists kv, r, f, id; auto).
    assert (Hog : In o (grp ks b)) by (apply Hgin; left; reflexivity).
    pose proof (not_mixed_uniform ks b Hmx _ _ Hmg Hog) as Hrule. cbn [m_rule] in Hrule.
    apply unused_correct. split; [reflexivity|]. split; [exact Hrule|]. split.
    - apply Hgin in Hmg. destruct Hmg as [Heq | Hin].
      + rewrite <- Heq in Ho. unfold is_other in Ho. cbn [m_form] in Ho. congruence.
      + destruct (fget_build_forms others [] f) as [[m [Hmin [Hmf Hget]]] | [Hnone _]].
        * exists (m_id m). apply fget_in. exact Hget.
        * exfalso. apply (Hnone _ Hin). reflexivity.
    - rewrite <- Hrule. intros Hc. apply existsb_form in Hc. congruence.
  Qed.
End Final.

(** * The level theorem *)

Lemma merge_level_eq : forall is_key cats path ks,
  merge_level is_key cats path ks = loop2 is_key cats path (groups_of ks) (keys0_of ks) [].
Proof. intros. unfold merge_level, groups_of, keys0_of. destruct (fold_left step1 ks ([], [])). reflexivity. Qed.

Lemma merge_level_outcome : forall is_key cats path ks, NoDup (map fst ks) ->
  outcome is_key cats path ks [] (groups_of ks) [] (merge_level is_key cats path ks).
Proof.
  intros is_key cats path ks Hnd. rewrite merge_level_eq.
  apply (loop2_correct is_key cats path ks Hnd (groups_of ks) [] (keys0_of ks) [] eq_refl).
  apply linv_start. exact Hnd.
Qed.

Lemma settled_all : forall ks kv, In kv ks -> settled (groups_of ks) kv.
Proof.
  intros ks kv Hin. unfold settled. destruct (tag_of kv) as [[[[b r] f] id]|] eqn:Ht; [|exact I].
  apply groups_bases. intros Hnil. assert (Hk : In kv (members ks b)) by (apply in_members; eauto). rewrite Hnil in Hk. destruct Hk.
Qed.

Theorem spec_C05_holds : forall is_key cats path ks, NoDup (map fst ks) ->
  spec_C05 is_key cats path ks (merge_level is_key cats path ks) = true.
Proof.
  intros is_key cats path ks Hnd. pose proof (merge_level_outcome is_key cats path ks Hnd) as H.
  destruct (merge_level is_key cats path ks) as [out ws|[| |] p|]; cbn [outcome app] in H.
  - destruct H as [Hinv Hws]. subst ws. unfold spec_C05.
    assert (HbG : forall b, mergeable ks b = true -> In b (map fst (groups_of ks))).
    { intros b Hm. apply groups_bases. apply mergeable_members. exact Hm. }
    repeat (apply andb_true_iff; split).
    + apply forallb_forall. intros b Hb. apply in_merged_bases in Hb.
      destruct (li_plural _ _ _ _ Hinv b (HbG b Hb) Hb) as [Hmx [Hco _]]. rewrite Hmx, Hco. reflexivity.
    + apply ssorted_sorted_strict. apply (li_sorted _ _ _ _ Hinv).
    + apply forallb_forall. intros k Hk. apply in_keys_mget in Hk. destruct Hk as [v Hget].
      apply orb_true_iff.
      destruct (li_sound _ _ _ _ Hinv k v Hget) as [[kv [Hin [Hk [Hv [Hkm Hst]]]]] | [Hin [Hm Hpn]]].
      * left. apply mem_str_In. apply in_map_iff. exists kv. split; [exact Hk | apply in_remaining; auto].
      * right. apply mem_str_In. apply in_merged_bases. exact Hm.
    + apply forallb_forall. intros kv Hkv. apply in_remaining in Hkv. destruct Hkv as [Hin Hkm].
      rewrite (li_complete _ _ _ _ Hinv kv Hin Hkm (settled_all ks kv Hin)).
      destruct (snd kv); cbn [ival_eqb]; apply N.eqb_refl.
    + apply forallb_forall. intros b Hb. apply in_merged_bases in Hb.
      destruct (li_plural _ _ _ _ Hinv b (HbG b Hb) Hb) as [Hmx [_ [_ [v [Hpn Hget]]]]]. rewrite Hget.
      apply (plural_ok_node ks Hnd b v Hb Hmx Hpn).
    + apply incl_b_of_In. intros w Hw. apply (warns_sound is_key cats path ks Hnd out w Hinv Hw).
    + apply incl_b_of_In. intros w Hw. apply (warns_complete is_key cats path ks out w Hinv Hw).
  - destruct H as [b [-> [Hm Hmx]]]. unfold spec_C05. rewrite split_last_snoc, path_eqb_refl, Hm, Hmx. reflexivity.
  - destruct H as [b [-> [Hm Hco]]]. unfold spec_C05. rewrite split_last_snoc, path_eqb_refl, Hm, Hco. reflexivity.
  - destruct H as [b [-> [Hm Hk]]]. unfold spec_C05. rewrite Hm, Hk. reflexivity.
  - destruct H.
Qed.

(** * Property-level corollaries *)

Lemma merge_keys_level : forall is_key cats path ks out ws, NoDup (map fst ks) ->
  merge_level is_key cats path ks = ROk out ws ->
  forall k, In k (map fst out) <-> In k (map fst (remaining ks)) \/ In k (merged_bases ks).
Proof.
  intros is_key cats path ks out ws Hnd Hr k. pose proof (merge_level_outcome is_key cats path ks Hnd) as H.
  rewrite Hr in H. cbn [outcome app] in H. destruct H as [Hinv _]. split.
  - intros Hk. apply in_keys_mget in Hk. destruct Hk as [v Hget].
    destruct (li_sound _ _ _ _ Hinv k v Hget) as [[kv [Hin [Hk [Hv [Hkm Hst]]]]] | [Hin [Hm Hpn]]].
    + left. apply in_map_iff. exists kv. split; [exact Hk | apply in_remaining; auto].
    + right. apply in_merged_bases. exact Hm.
  - intros [Hk | Hk].
    + apply in_map_iff in Hk. destruct Hk as [kv [Hk Hin]]. apply in_remaining in Hin. destruct Hin as [Hin Hkm].
      pose proof (li_complete _ _ _ _ Hinv kv Hin Hkm (settled_all ks kv Hin)) as Hget. rewrite Hk in Hget.
      apply mget_in in Hget. apply in_map_iff. exists (k, Kept (snd kv)). split; [reflexivity | exact Hget].
    + apply in_merged_bases in Hk.
      assert (HbG : In k (map fst (groups_of ks))) by (apply groups_bases; apply mergeable_members; exact Hk).
      destruct (li_plural _ _ _ _ Hinv k HbG Hk) as [_ [_ [_ [v [_ Hget]]]]].
      apply mget_in in Hget. apply in_map_iff. exists (k, v). split; [reflexivity | exact Hget].
Qed.

Lemma in_all_forms : forall c, In c all_forms.
Proof. intros c. unfold all_forms. destruct c; cbn; tauto. Qed.

Lemma select_level :
  forall (locale operand : Type) (cat : locale -> rule -> operand -> form) is_key cats path ks out ws b,
    NoDup (map fst ks) -> merge_level is_key cats path ks = ROk out ws -> mergeable ks b = true ->
    exists r other forms,
      mget b out = Some (PluralV r other forms) /\
      (forall kv, In kv (members ks b) -> has_rule r kv = true) /\
      forall (l : locale) (n : operand),
        let c := cat l r n in
        select_cat other forms c = select_match other forms c /\
        match written ks b c with
        | [] => In (select_match other forms c) (written ks b Other)
        | ids => In (select_match other forms c) ids
        end.
Proof.
  intros locale operand cat is_key cats path ks out ws b Hnd Hr Hm.
  pose proof (merge_level_outcome is_key cats path ks Hnd) as H. rewrite Hr in H. cbn [outcome app] in H. destruct H as [Hinv _].
  assert (HbG : In b (map fst (groups_of ks))) by (apply groups_bases; apply mergeable_members; exact Hm).
  destruct (li_plural _ _ _ _ Hinv b HbG Hm) as [Hmx [_ [_ [v [Hpn Hget]]]]].
  pose proof (plural_ok_node ks Hnd b v Hm Hmx Hpn) as Hok.
  unfold plural_node in Hpn. destruct (remove_first_other (grp ks b)) as [[o others]|]; [|discriminate]. inversion Hpn; subst v.
  exists (m_rule o), (m_id o), (build_forms others []). split; [exact Hget|].
  unfold plural_ok in Hok. apply andb_true_iff in Hok. destruct Hok as [Hok H3]. apply andb_true_iff in Hok. destruct Hok as [H1 H2].
  split.
  - intros kv Hin. rewrite forallb_forall in H1. apply H1. exact Hin.
  - intros l n c. rewrite forallb_forall in H2, H3. specialize (H2 c (in_all_forms c)). specialize (H3 c (in_all_forms c)).
    split; [apply N.eqb_eq; exact H3|].
    destruct (written ks b c) as [|x rest].
    + apply existsb_exists in H2. destruct H2 as [y [Hy Heq]]. apply N.eqb_eq in Heq. rewrite Heq. exact Hy.
    + apply existsb_exists in H2. destruct H2 as [y [Hy Heq]]. apply N.eqb_eq in Heq. rewrite Heq. exact Hy.
Qed.

Lemma conflicts_level : forall is_key cats path ks, NoDup (map fst ks) ->
  ((exists b, mergeable ks b = true /\ (is_key b = false \/ mixed ks b = true \/ collides ks b = true)) <->
   (exists k p, merge_level is_key cats path ks = RErr k p)) /\
  (forall k p, merge_level is_key cats path ks = RErr k p ->
     exists b, mergeable ks b = true /\
               match k with
               | EConflict => p = path ++ [b] /\ mixed ks b = true
               | ECollide => p = path ++ [b] /\ collides ks b = true
               | EInvalid => p = [b] /\ is_key b = false
               end) /\
  merge_level is_key cats path ks <> RPanic.
Proof.
  intros is_key cats path ks Hnd. pose proof (merge_level_outcome is_key cats path ks Hnd) as H.
  destruct (merge_level is_key cats path ks) as [out ws|k p|] eqn:Hr; cbn [outcome app] in H.
  - destruct H as [Hinv _]. split; [|split; [|discriminate]].
    + split.
      * intros [b [Hm Hbad]]. exfalso.
        assert (HbG : In b (map fst (groups_of ks))) by (apply groups_bases; apply mergeable_members; exact Hm).
        destruct (li_plural _ _ _ _ Hinv b HbG Hm) as [Hmx [Hco [Hik _]]]. destruct Hbad as [A | [A | A]]; congruence.
      * intros [k [p Hk]]. discriminate.
    + intros k p Hk. discriminate.
  - split; [|split; [|discriminate]].
    + split; [intros _; eauto|]. intros _. destruct k; destruct H as [b [_ [Hm Hbad]]]; exists b; auto.
    + intros k' p' Hk. inversion Hk; subst k' p'. destruct k; destruct H as [b [Hp [Hm Hbad]]]; exists b; auto.
  - destruct H.
Qed.

Lemma unused_level : forall is_key cats path ks out ws, NoDup (map fst ks) ->
  merge_level is_key cats path ks = ROk out ws ->
  forall w, In w ws <-> In w (expected_warnings cats path ks).
Proof.
  intros is_key cats path ks out ws Hnd Hr w. pose proof (merge_level_outcome is_key cats path ks Hnd) as H.
  rewrite Hr in H. cbn [outcome app] in H. destruct H as [Hinv ->]. split.
  - apply (warns_sound is_key cats path ks Hnd out w Hinv).
  - apply (warns_complete is_key cats path ks out w Hinv).
Qed.

(** cross-locale clause, outside the known failing class *)
Lemma forallb2_map_r : forall (A B : Type) (f : A -> B -> bool) (g : A -> B) l,
  forallb2 f l (map g l) = forallb (fun x => f x (g x)) l.
Proof. intros. induction l as [|x r IH]; cbn [map forallb2 forallb]; [reflexivity|]. rewrite IH. reflexivity. Qed.

Lemma cross_level : forall is_key cats levels, lone_other levels = false ->
  (forall ks, In ks levels -> NoDup (map fst ks) /\ exists out ws, merge_level is_key cats [] ks = ROk out ws) ->
  spec_cross levels (map (fun ks => match merge_level is_key cats [] ks with ROk out _ => out | _ => [] end) levels) = true.
Proof.
  intros is_key cats levels Hlone Hall. unfold spec_cross. rewrite forallb2_map_r. apply forallb_forall. intros ks Hks.
  destruct (Hall ks Hks) as [Hnd [out [ws Hr]]]. rewrite Hr. apply forallb_forall. intros b Hb.
  destruct (existsb (has_form Other) (members ks b)) eqn:Hoth; [|reflexivity]. cbn [negb orb].
  assert (Hm : mergeable ks b = true).
  { unfold mergeable. rewrite Hoth, andb_true_r.
    destruct (length (members ks b)) as [|[|n]] eqn:El; [| |reflexivity].
    - destruct (members ks b); [cbn in Hoth; discriminate | cbn in El; discriminate].
    - exfalso. unfold lone_other in Hlone.
      assert (Ht : existsb (fun ks0 => existsb (fun b0 => Nat.eqb (length (members ks0 b0)) 1 && existsb (has_form Other) (members ks0 b0))
                                              (all_merged_bases levels)) levels = true); [|congruence].
      apply existsb_exists. exists ks. split; [exact Hks|]. apply existsb_exists. exists b. split; [exact Hb|].
      rewrite El, Hoth. reflexivity. }
  pose proof (merge_level_outcome is_key cats [] ks Hnd) as H. rewrite Hr in H. cbn [outcome app] in H. destruct H as [Hinv _].
  assert (HbG : In b (map fst (groups_of ks))) by (apply groups_bases; apply mergeable_members; exact Hm).
  destruct (li_plural _ _ _ _ Hinv b HbG Hm) as [_ [_ [_ [v [Hpn Hget]]]]].
  unfold is_plural_at. rewrite Hget. unfold plural_node in Hpn.
  destruct (remove_first_other (grp ks b)) as [[o others]|]; [|discriminate]. inversion Hpn. reflexivity.
Qed.

(** * The second pass (lone `_other`) and the whole-project theorem *)

Section LoneProofs.
  Variable is_key : str -> bool.
  Variable ext : str -> bool.

  Definition cand_list (kv : str * oval) : list (str * rule * N) :=
    match lone_candidate is_key ext kv with Some c => [c] | None => [] end.

  Lemma lone_split_lone : forall keys R L,
    snd (fold_left (lone_step is_key ext) keys (R, L)) = L ++ flat_map cand_list keys.
  Proof.
    induction keys as [|kv r IH]; intros R L; cbn [fold_left flat_map]; [rewrite app_nil_r; reflexivity|].
    unfold lone_step at 2, cand_list at 1. destruct (lone_candidate is_key ext kv) as [c|]; cbn [fst snd].
    - rewrite IH, <- app_assoc. reflexivity.
    - rewrite IH. reflexivity.
  Qed.

  Lemma lone_split_rest : forall keys R L k,
    mget k (fst (fold_left (lone_step is_key ext) keys (R, L))) =
    match find (fun kv => str_eqb k (fst kv) && match lone_candidate is_key ext kv with None => true | Some _ => false end) (rev keys) with
    | Some kv => Some (snd kv)
    | None => mget k R
    end.
  Proof.
    induction keys as [|kv r IH]; intros R L k; cbn [fold_left rev]; [reflexivity|].
    unfold lone_step at 2. rewrite find_app_or. destruct (lone_candidate is_key ext kv) as [c|] eqn:Hc; cbn [fst snd].
    - rewrite IH. destruct (find _ (rev r)); [reflexivity|]. cbn [find]. rewrite Hc, andb_false_r. reflexivity.
    - rewrite IH. destruct (find _ (rev r)); [reflexivity|]. cbn [find]. rewrite Hc, andb_true_r, mget_minsert.
      destruct (str_eqb k (fst kv)); reflexivity.
  Qed.

  Lemma lone_insert_ok : forall path lone keys out ws,
    lone_insert path lone keys = ROk out ws ->
    (forall k v, mget k keys = Some v -> mget k out = Some v) /\
    (forall b r id, In (b, r, id) lone -> is_plural_at b out = true).
  Proof.
    induction lone as [|[[b r] id] rest IH]; intros keys out ws H; cbn [lone_insert] in H.
    - inversion H; subst. split; [auto | intros b r id []].
    - destruct (mmem b keys) eqn:Hm; [discriminate|]. destruct (IH _ _ _ H) as [Hkeep Hpl].
      assert (Hnone : mget b keys = None) by (unfold mmem in Hm; destruct (mget b keys); [discriminate | reflexivity]).
      split.
      + intros k v Hk. apply Hkeep. rewrite mget_minsert. destruct (str_eqb k b) eqn:E; [|exact Hk].
        apply str_eqb_eq in E. subst k. congruence.
      + intros b' r' id' [Heq | Hin].
        * inversion Heq; subst b' r' id'. unfold is_plural_at. rewrite (Hkeep b (PluralV r id [])); [reflexivity|].
          rewrite mget_minsert, str_eqb_refl. reflexivity.
        * apply (Hpl b' r' id' Hin).
  Qed.

  (** what the second pass guarantees for one locale *)
  Lemma lone_pass_ok : forall path keys out ws,
    ssorted keys -> lone_pass is_key ext path keys = ROk out ws ->
    (forall k v, In (k, v) keys -> lone_candidate is_key ext (k, v) = None -> mget k out = Some v) /\
    (forall kv b r id, In kv keys -> lone_candidate is_key ext kv = Some (b, r, id) -> is_plural_at b out = true).
  Proof.
    intros path keys out ws Hs H. unfold lone_pass in H.
    destruct (fold_left (lone_step is_key ext) keys ([], [])) as [rest lone] eqn:Hf.
    assert (Hrest : rest = fst (fold_left (lone_step is_key ext) keys ([], []))) by (rewrite Hf; reflexivity).
    assert (Hlone : lone = snd (fold_left (lone_step is_key ext) keys ([], []))) by (rewrite Hf; reflexivity).
    destruct (lone_insert_ok _ _ _ _ _ H) as [Hkeep Hpl]. split.
    - intros k v Hin Hc. apply Hkeep. rewrite Hrest, lone_split_rest. cbn [mget].
      destruct (find _ (rev keys)) as [kv'|] eqn:Hfd.
      + apply find_some in Hfd. destruct Hfd as [Hin' Hp]. apply andb_true_iff in Hp. destruct Hp as [Hk _].
        apply str_eqb_eq in Hk. apply in_rev in Hin'. destruct kv' as [k' v']. cbn [fst snd] in *. subst k'.
        pose proof (in_mget _ _ _ Hs Hin) as G1. pose proof (in_mget _ _ _ Hs Hin') as G2. congruence.
      + exfalso. assert (Hr : In (k, v) (rev keys)) by (apply in_rev; rewrite rev_involutive; exact Hin).
        pose proof (find_none _ _ Hfd _ Hr) as Hn. cbn [fst] in Hn. rewrite str_eqb_refl, Hc in Hn. discriminate.
    - intros kv b r id Hin Hc. apply (Hpl b r id). rewrite Hlone, lone_split_lone. cbn [app].
      apply in_flat_map. exists kv. split; [exact Hin|]. unfold cand_list. rewrite Hc. left. reflexivity.
  Qed.
End LoneProofs.

Lemma seq_res_ok : forall (A : Type) (f : A -> res) l outs,
  seq_res f l = POk outs -> Forall2 (fun x out => exists ws, f x = ROk out ws) l outs.
Proof.
  induction l as [|x r IH]; intros outs H; cbn [seq_res] in H.
  - inversion H. constructor.
  - destruct (f x) as [out ws|k p|] eqn:Hf; try discriminate.
    destruct (seq_res f r) as [outs'|k p|] eqn:Hr; try discriminate. inversion H; subst.
    constructor; [exists ws; exact Hf | apply IH; reflexivity].
Qed.

Lemma forallb2_Forall2 : forall (A B : Type) (f : A -> B -> bool) l1 l2,
  Forall2 (fun a b => f a b = true) l1 l2 -> forallb2 f l1 l2 = true.
Proof. intros A B f l1 l2 H. induction H; cbn [forallb2]; [reflexivity|]. rewrite H, IHForall2. reflexivity. Qed.

Lemma Forall2_compose : forall (A B C : Type) (P : A -> B -> Prop) (Q : B -> C -> Prop) l1 l2 l3,
  Forall2 P l1 l2 -> Forall2 Q l2 l3 -> Forall2 (fun a c => exists b, P a b /\ Q b c) l1 l3.
Proof.
  intros A B C P Q l1 l2 l3 H. revert l3. induction H; intros l3 H2; inversion H2; subst; constructor; eauto.
Qed.

Lemma Forall2_in_l : forall (A B : Type) (P : A -> B -> Prop) l1 l2 a,
  Forall2 P l1 l2 -> In a l1 -> exists b, In b l2 /\ P a b.
Proof.
  intros A B P l1 l2 a H. induction H; intros Hin; [destruct Hin|]. destruct Hin as [<- | Hin].
  - eexists. split; [left; reflexivity | eassumption].
  - destruct (IHForall2 Hin) as [b [Hb Hp]]. exists b. split; [right; exact Hb | exact Hp].
Qed.

Lemma Forall2_impl_in : forall (A B : Type) (P Q : A -> B -> Prop) l1 l2,
  Forall2 P l1 l2 -> (forall a b, In a l1 -> P a b -> Q a b) -> Forall2 Q l1 l2.
Proof.
  intros A B P Q l1 l2 H. induction H; intros Himp; constructor.
  - apply Himp; [left; reflexivity | assumption].
  - apply IHForall2. intros a b Hin Hp. apply Himp; [right; exact Hin | exact Hp].
Qed.

Lemma in_plural_bases : forall b out r o f, In (b, PluralV r o f) out -> In b (plural_bases out).
Proof.
  intros b out r o f H. unfold plural_bases. apply in_flat_map. exists (b, PluralV r o f). split; [exact H | left; reflexivity].
Qed.

Lemma plural_node_shape : forall ks b v, plural_node ks b = Some v -> exists r o f, v = PluralV r o f.
Proof.
  intros ks b v H. unfold plural_node in H. destruct (remove_first_other (grp ks b)) as [[o others]|]; [|discriminate].
  inversion H. eauto.
Qed.

(** C05_cross: after the whole-project merging, every locale that writes the `_other` form of a key which some locale
    merges has that key as a plural — without exception *)
Theorem project_cross : forall is_key cats levels outs,
  (forall ks, In ks levels -> NoDup (map fst ks)) ->
  merge_project is_key cats levels = POk outs -> spec_cross levels outs = true.
Proof.
  intros is_key cats levels outs Hnd H. unfold merge_project in H.
  destruct (seq_res (merge_level is_key cats []) levels) as [outs1|k p|] eqn:H1; try discriminate.
  pose proof (seq_res_ok _ _ _ _ H1) as F1.
  (* facts about the first pass, for any level *)
  assert (Hlevel : forall ks out1, In ks levels -> (exists ws, merge_level is_key cats [] ks = ROk out1 ws) ->
                    LInv is_key ks (groups_of ks) out1).
  { intros ks out1 Hin [ws Hr]. pose proof (merge_level_outcome is_key cats [] ks (Hnd ks Hin)) as Ho.
    rewrite Hr in Ho. cbn [outcome app] in Ho. apply Ho. }
  assert (Hplural : forall ks out1 b, In ks levels -> (exists ws, merge_level is_key cats [] ks = ROk out1 ws) ->
                     mergeable ks b = true -> is_key b = true /\ is_plural_at b out1 = true /\ In b (plural_bases out1)).
  { intros ks out1 b Hin Hr Hm. pose proof (Hlevel ks out1 Hin Hr) as Hinv.
    assert (HbG : In b (map fst (groups_of ks))) by (apply groups_bases; apply mergeable_members; exact Hm).
    destruct (li_plural _ _ _ _ Hinv b HbG Hm) as [_ [_ [Hik [v [Hpn Hget]]]]].
    destruct (plural_node_shape _ _ _ Hpn) as [r [o [f ->]]]. split; [exact Hik|]. split.
    - unfold is_plural_at. rewrite Hget. reflexivity.
    - apply (in_plural_bases b out1 r o f). apply mget_in. exact Hget. }
  unfold spec_cross.
  destruct (forallb (fun out => match plural_bases out with [] => true | _ :: _ => false end) outs1) eqn:Hnone.
  - (* no plural anywhere: nothing is merged in any locale *)
    inversion H; subst outs. apply forallb2_Forall2.
    assert (Hempty : all_merged_bases levels = []).
    { destruct (all_merged_bases levels) as [|b rest] eqn:E; [reflexivity|]. exfalso.
      assert (Hb : In b (all_merged_bases levels)) by (rewrite E; left; reflexivity).
      unfold all_merged_bases in Hb. apply in_flat_map in Hb. destruct Hb as [ks [Hks Hb]]. apply in_merged_bases in Hb.
      destruct (Forall2_in_l _ _ _ _ _ _ F1 Hks) as [out1 [Hout Hr]].
      destruct (Hplural ks out1 b Hks Hr Hb) as [_ [_ Hpb]].
      rewrite forallb_forall in Hnone. specialize (Hnone out1 Hout). destruct (plural_bases out1); [destruct Hpb | discriminate]. }
    rewrite Hempty. clear -F1. induction F1; constructor; [reflexivity | assumption].
  - (* second pass *)
    set (ext := fun b => existsb (fun out => mem_str b (plural_bases out)) outs1) in *.
    pose proof (seq_res_ok _ _ _ _ H) as F2.
    pose proof (Forall2_compose _ _ _ _ _ _ _ _ F1 F2) as F12. apply forallb2_Forall2.
    assert (Hext : forall b, In b (all_merged_bases levels) -> is_key b = true /\ ext b = true).
    { intros b Hb. unfold all_merged_bases in Hb. apply in_flat_map in Hb. destruct Hb as [ks [Hks Hb]]. apply in_merged_bases in Hb.
      destruct (Forall2_in_l _ _ _ _ _ _ F1 Hks) as [out1 [Hout Hr]].
      destruct (Hplural ks out1 b Hks Hr Hb) as [Hik [_ Hpb]]. split; [exact Hik|].
      unfold ext. apply existsb_exists. exists out1. split; [exact Hout | apply mem_str_In; exact Hpb]. }
    apply (Forall2_impl_in _ _ _ _ _ _ F12). intros ks out2 Hks [out1 [Hr1 [ws2 Hr2]]].
    pose proof (Hlevel ks out1 Hks Hr1) as Hinv.
    destruct (lone_pass_ok is_key ext [] out1 out2 ws2 (li_sorted _ _ _ _ Hinv) Hr2) as [Hkeep Hlone].
    apply forallb_forall. intros b Hb. destruct (Hext b Hb) as [Hik Hex].
    destruct (existsb (has_form Other) (members ks b)) eqn:Hoth; [|reflexivity]. cbn [negb orb].
    destruct (mergeable ks b) eqn:Hm.
    + (* merged by the first pass, kept by the second *)
      destruct (Hplural ks out1 b Hks Hr1 Hm) as [_ [Hpl _]]. unfold is_plural_at in *.
      destruct (mget b out1) as [v|] eqn:Hget; [|discriminate]. destruct v as [iv|r o f]; [discriminate|].
      rewrite (Hkeep b (PluralV r o f) (mget_in _ _ _ Hget) eq_refl). reflexivity.
    + (* a lone `_other`: turned into a plural by the second pass *)
      apply existsb_exists in Hoth. destruct Hoth as [kv [Hmem Hform]]. apply in_members in Hmem.
      destruct Hmem as [Hkin [r [f [id Ht]]]]. unfold has_form, tag_form in Hform. rewrite Ht in Hform.
      apply form_eqb_eq in Hform. subst f.
      assert (Hkm : kv_merged ks kv = false) by (rewrite (kv_merged_tag _ _ _ _ _ _ Ht); exact Hm).
      pose proof (li_complete _ _ _ _ Hinv kv Hkin Hkm (settled_all ks kv Hkin)) as Hget.
      apply mget_in in Hget. pose proof (tag_leaf _ _ _ _ _ Ht) as Hleaf. rewrite Hleaf in Hget.
      apply (Hlone (fst kv, Kept (Leaf id)) b r id Hget).
      unfold lone_candidate. cbn [fst snd]. unfold tag_of in Ht. rewrite Hleaf in Ht. rewrite Ht, Hik, Hex. reflexivity.
Qed.

(** * Parse-time selection = run-time selection *)

(** C05_static_select: for every oracle, locale, rule type and operand, the form `$t(key, {"count": n})` selects while the
    files are loaded is the form the generated `match` selects at run time for the same locale and count *)
Lemma static_select_correct :
  forall (locale operand : Type) (cat : locale -> rule -> operand -> form) (top dflt : locale) (r : rule) (n : operand)
         (others : list member) (other : N),
    (forall m, In m others -> is_other m = false) ->
    resolve_count_ref locale operand cat top dflt r other (build_forms others []) (CountLit n)
    = SForm (select_match other (build_forms others []) (cat top r n)).
Proof.
  intros locale operand cat top dflt r n others other Hno. unfold resolve_count_ref, populate_with_count_arg.
  f_equal. apply select_cat_match. apply build_forms_no_other. exact Hno.
Qed.

Lemma static_select_level :
  forall (locale operand : Type) (cat : locale -> rule -> operand -> form) is_key cats path ks out ws b,
    NoDup (map fst ks) -> merge_level is_key cats path ks = ROk out ws -> mergeable ks b = true ->
    exists r other forms,
      mget b out = Some (PluralV r other forms) /\
      forall (top dflt : locale) (n : operand),
        resolve_count_ref locale operand cat top dflt r other forms (CountLit n)
        = SForm (select_match other forms (cat top r n)).
Proof.
  intros locale operand cat is_key cats path ks out ws b Hnd Hr Hm.
  destruct (select_level locale operand cat is_key cats path ks out ws b Hnd Hr Hm) as [r [other [forms [Hget [_ Hsel]]]]].
  exists r, other, forms. split; [exact Hget|]. intros top dflt n. unfold resolve_count_ref, populate_with_count_arg.
  f_equal. apply (Hsel top n).
Qed.

(** a count that is not a literal number never selects a form: renaming keeps the plural, anything else is the
    InvalidCountArg error naming the referencing locale *)
Lemma static_select_other_args : forall (locale operand : Type) cat (top dflt : locale) r other forms k,
  resolve_count_ref locale operand cat top dflt r other forms (CountVar k) = SRename k /\
  resolve_count_ref locale operand cat top dflt r other forms CountInvalid = SInvalid top.
Proof. intros. split; reflexivity. Qed.

(** * UnusedForm warnings of a whole project: exactly once per locale, independent of the locale order *)

Fixpoint fsorted (m : list (form * N)) : Prop :=
  match m with
  | [] => True
  | (f, _) :: r => (forall x, In x (map fst r) -> form_ltb f x = true) /\ fsorted r
  end.
Lemma form_ltb_trans : forall a b c, form_ltb a b = true -> form_ltb b c = true -> form_ltb a c = true.
Proof. intros a b c. unfold form_ltb. rewrite !Nat.ltb_lt. lia. Qed.
Lemma form_ltb_total : forall a b, form_ltb a b = false -> form_eqb a b = false -> form_ltb b a = true.
Proof. intros a b. unfold form_ltb, form_eqb. rewrite Nat.ltb_ge, Nat.eqb_neq, Nat.ltb_lt. lia. Qed.
Lemma form_ltb_irrefl : forall a, form_ltb a a = false.
Proof. intros a. unfold form_ltb. apply Nat.ltb_irrefl. Qed.

Lemma keys_finsert : forall x f v m, In x (map fst (finsert f v m)) <-> x = f \/ In x (map fst m).
Proof.
  intros x f v m. induction m as [|[f2 v2] r IH]; cbn [finsert map fst In]; [intuition|].
  destruct (form_ltb f f2); [cbn [map fst In]; intuition|]. destruct (form_eqb f f2) eqn:E; cbn [map fst In].
  - apply form_eqb_eq in E. subst. intuition.
  - rewrite IH. intuition.
Qed.
Lemma finsert_fsorted : forall f v m, fsorted m -> fsorted (finsert f v m).
Proof.
  intros f v m. induction m as [|[f2 v2] r IH]; intros H; cbn [finsert].
  - cbn [fsorted map In]. split; [intros x []|exact I].
  - destruct H as [Hlb Hr]. destruct (form_ltb f f2) eqn:E1.
    + cbn [fsorted]. split; [|split; assumption]. intros x [<- | Hx]; [exact E1|].
      apply (form_ltb_trans f f2 x); [exact E1 | apply Hlb; exact Hx].
    + destruct (form_eqb f f2) eqn:E2.
      * apply form_eqb_eq in E2. subst f2. cbn [fsorted]. split; assumption.
      * cbn [fsorted]. split; [|apply IH; exact Hr]. intros x Hx. apply keys_finsert in Hx. destruct Hx as [-> | Hx].
        -- apply form_ltb_total; assumption.
        -- apply Hlb. exact Hx.
Qed.
Lemma build_forms_fsorted : forall others acc, fsorted acc -> fsorted (build_forms others acc).
Proof.
  induction others as [|m r IH]; intros acc H; cbn [build_forms fold_left]; [exact H|].
  apply (IH (finsert (m_form m) (m_id m) acc)). apply finsert_fsorted. exact H.
Qed.
Lemma fsorted_NoDup : forall m, fsorted m -> NoDup (map fst m).
Proof.
  induction m as [|[f v] r IH]; intros H; cbn [map]; [constructor|]. destruct H as [Hlb Hr].
  constructor; [|apply IH; exact Hr]. intros Hin. specialize (Hlb f Hin). rewrite form_ltb_irrefl in Hlb. discriminate.
Qed.

Lemma NoDup_app_intro : forall (A : Type) (l1 l2 : list A),
  NoDup l1 -> NoDup l2 -> (forall x, In x l1 -> ~ In x l2) -> NoDup (l1 ++ l2).
Proof.
  intros A l1 l2 H1 H2 Hd. induction l1 as [|a r IH]; cbn [app]; [exact H2|].
  inversion H1 as [|? ? Hn Hr]; subst. constructor.
  - intros Hin. apply in_app_or in Hin. destruct Hin as [Hin | Hin]; [contradiction|]. apply (Hd a); [left; reflexivity | exact Hin].
  - apply IH; [exact Hr|]. intros x Hx. apply Hd. right. exact Hx.
Qed.

Lemma unused_NoDup : forall cats path r forms, NoDup (map fst forms) -> NoDup (unused cats path r forms).
Proof.
  intros cats path r forms. unfold unused. induction forms as [|[f v] rest IH]; cbn [map filter fst]; intros H; [constructor|].
  inversion H as [|? ? Hn Hr]; subst. destruct (negb (existsb (form_eqb f) (cats r))); [|apply IH; exact Hr].
  cbn [map fst]. constructor; [|apply IH; exact Hr]. intros Hin. apply in_map_iff in Hin. destruct Hin as [[f2 v2] [Heq Hin]].
  cbn [fst] in Heq. inversion Heq; subst. apply filter_In in Hin. apply Hn. apply in_map_iff. exists (f, v2). split; [reflexivity | apply Hin].
Qed.

Lemma group_warns_NoDup : forall cats path bg, NoDup (group_warns cats path bg).
Proof.
  intros cats path bg. unfold group_warns. destruct (group_mergeable (snd bg)); [|constructor].
  destruct (remove_first_other (snd bg)) as [[o others]|]; [|constructor].
  apply unused_NoDup. apply fsorted_NoDup. apply build_forms_fsorted. exact I.
Qed.
Lemma group_warns_path : forall cats path bg w, In w (group_warns cats path bg) -> fst (fst w) = path ++ [fst bg].
Proof.
  intros cats path bg w H. unfold group_warns in H. destruct (group_mergeable (snd bg)); [|destruct H].
  destruct (remove_first_other (snd bg)) as [[o others]|]; [|destruct H]. destruct w as [[p f] r].
  apply unused_correct in H. cbn [fst]. apply H.
Qed.

Lemma ssorted_keys_NoDup : forall (A : Type) (m : list (str * A)), ssorted m -> NoDup (map fst m).
Proof.
  induction m as [|[k v] r IH]; intros H; cbn [map]; [constructor|]. destruct H as [Hlb Hr].
  constructor; [|apply IH; exact Hr]. intros Hin. specialize (Hlb k Hin). rewrite str_ltb_irrefl in Hlb. discriminate.
Qed.

Lemma flat_group_warns_NoDup : forall cats path (G : gmap), NoDup (map fst G) -> NoDup (flat_map (group_warns cats path) G).
Proof.
  intros cats path G. induction G as [|bg r IH]; cbn [map flat_map]; intros H; [constructor|].
  inversion H as [|? ? Hn Hr]; subst. apply NoDup_app_intro; [apply group_warns_NoDup | apply IH; exact Hr |].
  intros w Hw Hin. apply in_flat_map in Hin. destruct Hin as [bg' [Hbg' Hw']].
  apply group_warns_path in Hw. apply group_warns_path in Hw'. rewrite Hw in Hw'. apply app_inv_head in Hw'.
  inversion Hw' as [Heq]. apply Hn. rewrite Heq. apply in_map. exact Hbg'.
Qed.

Lemma level_warnings_NoDup : forall is_key cats path ks out ws, NoDup (map fst ks) ->
  merge_level is_key cats path ks = ROk out ws -> NoDup ws.
Proof.
  intros is_key cats path ks out ws Hnd Hr. pose proof (merge_level_outcome is_key cats path ks Hnd) as H.
  rewrite Hr in H. cbn [outcome app] in H. destruct H as [_ ->].
  apply flat_group_warns_NoDup. apply ssorted_keys_NoDup. apply groups_sorted.
Qed.

(** C05_unused_project *)
Theorem project_unused : forall is_key path (cl : list ((rule -> list form) * list (str * ival))),
  (forall c, In c cl -> NoDup (map fst (snd c)) /\ exists out ws, merge_level is_key (fst c) path (snd c) = ROk out ws) ->
  Forall2 (fun c ws => NoDup ws /\ forall w, In w ws <-> In w (expected_warnings (fst c) path (snd c)))
          cl (project_warnings is_key path cl)
  /\ forall cl', Permutation cl cl' ->
                 Permutation (project_warnings is_key path cl) (project_warnings is_key path cl').
Proof.
  intros is_key path cl Hall. split.
  - unfold project_warnings. induction cl as [|c r IH]; cbn [map]; constructor.
    + destruct (Hall c (or_introl eq_refl)) as [Hnd [out [ws Hr]]]. rewrite Hr. split.
      * apply (level_warnings_NoDup is_key (fst c) path (snd c) out ws Hnd Hr).
      * apply (unused_level is_key (fst c) path (snd c) out ws Hnd Hr).
    + apply IH. intros c' Hc'. apply Hall. right. exact Hc'.
  - intros cl' Hp. unfold project_warnings. apply Permutation_map. exact Hp.
Qed.

(** * The two passes over whole trees *)

Lemma path_eqb_eq : forall p q, path_eqb p q = true <-> p = q.
Proof.
  induction p as [|x r IH]; destruct q as [|y s]; cbn [path_eqb]; split; intros H; try reflexivity; try discriminate.
  - apply andb_true_iff in H. destruct H as [H1 H2]. apply str_eqb_eq in H1. apply IH in H2. subst. reflexivity.
  - inversion H; subst. rewrite str_eqb_refl. apply IH. reflexivity.
Qed.
Lemma path_mem_In : forall p l, path_mem p l = true <-> In p l.
Proof.
  intros p l. unfold path_mem. rewrite existsb_exists. split.
  - intros [q [Hin H]]. apply path_eqb_eq in H. subst. exact Hin.
  - intros H. exists p. split; [exact H | apply path_eqb_eq; reflexivity].
Qed.

Lemma seq_levels_ok : forall f l outs, seq_levels f l = Some outs ->
  Forall2 (fun pl out => exists ws, f pl = ROk out ws) l outs.
Proof.
  induction l as [|x r IH]; intros outs H; cbn [seq_levels] in H.
  - inversion H. constructor.
  - destruct (f x) as [out ws|k p|] eqn:Hf; try discriminate.
    destruct (seq_levels f r) as [outs'|] eqn:Hr; [|discriminate]. inversion H; subst.
    constructor; [exists ws; exact Hf | apply IH; reflexivity].
Qed.

Lemma plural_paths_in : forall levels outs1 pl out1 b,
  Forall2 (fun (pl : plevel) (out : kmap) => True) levels outs1 ->
  In (pl, out1) (combine levels outs1) -> In b (plural_bases out1) -> In (fst pl ++ [b]) (plural_paths levels outs1).
Proof.
  intros levels outs1 pl out1 b F. induction F as [|[p ks] o l1 l2 _ _ IH]; cbn [combine plural_paths]; intros Hin Hb; [destruct Hin|].
  apply in_or_app. destruct Hin as [Heq | Hin].
  - inversion Heq; subst. left. apply in_map_iff. exists b. split; [reflexivity | exact Hb].
  - right. apply IH; assumption.
Qed.

Lemma seq_levels2_ok : forall f levels outs1 outs, seq_levels2 f levels outs1 = Some outs ->
  Forall2 (fun (x : plevel * kmap) out2 => exists ws, f (fst (fst x)) (snd x) = ROk out2 ws) (combine levels outs1) outs.
Proof.
  induction levels as [|[p ks] r IH]; intros outs1 outs H; destruct outs1 as [|o1 outs1']; cbn [seq_levels2 combine] in *; try discriminate.
  - inversion H. constructor.
  - destruct (f p o1) as [out2 ws|k q|] eqn:Hf; try discriminate.
    destruct (seq_levels2 f r outs1') as [o|] eqn:Hr; [|discriminate]. inversion H; subst.
    constructor; [exists ws; exact Hf | apply IH; exact Hr].
Qed.

Lemma Forall2_combine : forall (A B : Type) (P : A -> B -> Prop) l1 l2,
  Forall2 P l1 l2 -> forall x y, In (x, y) (combine l1 l2) -> P x y.
Proof.
  intros A B P l1 l2 H. induction H; cbn [combine]; intros a b Hin; [destruct Hin|].
  destruct Hin as [Heq | Hin]; [inversion Heq; subst; assumption | apply IHForall2; exact Hin].
Qed.
Lemma Forall2_in_combine : forall (A B : Type) (P : A -> B -> Prop) l1 l2 x,
  Forall2 P l1 l2 -> In x l1 -> exists y, In (x, y) (combine l1 l2).
Proof.
  intros A B P l1 l2 x H. induction H; intros Hin; [destruct Hin|]. cbn [combine]. destruct Hin as [<- | Hin].
  - eexists. left. reflexivity.
  - destruct (IHForall2 Hin) as [y0 Hy]. exists y0. right. exact Hy.
Qed.
Lemma forallb2_combine : forall (A B C : Type) (f : A -> C -> bool) (l1 : list A) (l2 : list B) (l3 : list C),
  length l1 = length l2 ->
  Forall2 (fun (x : A * B) c => f (fst x) c = true) (combine l1 l2) l3 -> forallb2 f l1 l3 = true.
Proof.
  intros A B C f. induction l1 as [|a r IH]; intros [|b l2] l3 Hlen H; cbn [combine] in *; try discriminate.
  - inversion H. reflexivity.
  - inversion H as [|? c ? l3' Hf Hr]; subst. cbn [forallb2 fst] in *. rewrite Hf. apply (IH l2 l3'); [cbn [length] in Hlen; congruence | exact Hr].
Qed.

(** C05_cross_tree: after the two passes over a whole project — all locales, namespaces and sub-key depths — every level
    that writes the `_other` form of a key which some locale merges at the same key path has that key as a plural *)
Theorem project_cross_tree : forall is_key cats levels outs,
  (forall pl, In pl levels -> NoDup (map fst (snd pl))) ->
  merge_project_tree is_key cats levels = Some outs -> spec_cross_tree levels outs = true.
Proof.
  intros is_key cats levels outs Hnd H. unfold merge_project_tree in H.
  destruct (seq_levels (fun pl => merge_level is_key cats (fst pl) (snd pl)) levels) as [outs1|] eqn:H1; [|discriminate].
  pose proof (seq_levels_ok _ _ _ H1) as F1. pose proof (seq_levels2_ok _ _ _ _ H) as F2.
  set (pp := plural_paths levels outs1) in *.
  assert (Ftrue : Forall2 (fun (pl : plevel) (out : kmap) => True) levels outs1).
  { clear -F1. induction F1; constructor; auto. }
  assert (Hlen : length levels = length outs1) by (clear -F1; induction F1; cbn; congruence).
  assert (Hlevel : forall pl out1, In (pl, out1) (combine levels outs1) ->
                    LInv is_key (snd pl) (groups_of (snd pl)) out1).
  { intros pl out1 Hin. destruct (Forall2_combine _ _ _ _ _ F1 _ _ Hin) as [ws Hr].
    pose proof (merge_level_outcome is_key cats (fst pl) (snd pl) (Hnd pl (in_combine_l _ _ _ _ Hin))) as Ho.
    rewrite Hr in Ho. cbn [outcome app] in Ho. apply Ho. }
  assert (Hplural : forall pl out1 b, In (pl, out1) (combine levels outs1) -> mergeable (snd pl) b = true ->
                     is_key b = true /\ is_plural_at b out1 = true /\ In b (plural_bases out1)).
  { intros pl out1 b Hin Hm. pose proof (Hlevel pl out1 Hin) as Hinv.
    assert (HbG : In b (map fst (groups_of (snd pl)))) by (apply groups_bases; apply mergeable_members; exact Hm).
    destruct (li_plural _ _ _ _ Hinv b HbG Hm) as [_ [_ [Hik [v [Hpn Hget]]]]].
    destruct (plural_node_shape _ _ _ Hpn) as [r [o [f ->]]]. split; [exact Hik|]. split.
    - unfold is_plural_at. rewrite Hget. reflexivity.
    - apply (in_plural_bases b out1 r o f). apply mget_in. exact Hget. }
  unfold spec_cross_tree. apply (forallb2_combine _ _ _ _ levels outs1 outs Hlen).
  apply (Forall2_impl_in _ _ _ _ _ _ F2). intros [[p ks] out1] out2 Hin [ws2 Hr2]. cbn [fst snd] in *.
  pose proof (Hlevel (p, ks) out1 Hin) as Hinv. cbn [snd] in Hinv.
  destruct (lone_pass_ok is_key _ p out1 out2 ws2 (li_sorted _ _ _ _ Hinv) Hr2) as [Hkeep Hlone].
  apply forallb_forall. intros b _.
  destruct (path_mem (p ++ [b]) (all_merged_paths levels)) eqn:Hpm; [|reflexivity]. cbn [negb orb].
  destruct (existsb (has_form Other) (members ks b)) eqn:Hoth; [|reflexivity]. cbn [negb orb].
  (* some level with the same path merges b *)
  apply path_mem_In in Hpm. unfold all_merged_paths in Hpm. apply in_flat_map in Hpm. destruct Hpm as [[p' ks'] [Hpl' Hb']].
  apply in_map_iff in Hb'. destruct Hb' as [b' [Heq Hb']]. cbn [fst snd] in *.
  apply app_inj_tail in Heq. destruct Heq as [-> ->]. apply in_merged_bases in Hb'.
  destruct (Forall2_in_combine _ _ _ _ _ _ F1 Hpl') as [out1' Hin'].
  destruct (Hplural (p, ks') out1' b Hin' Hb') as [Hik [_ Hpb]].
  assert (Hex : path_mem (p ++ [b]) pp = true).
  { apply path_mem_In. apply (plural_paths_in levels outs1 (p, ks') out1' b Ftrue Hin' Hpb). }
  destruct (mergeable ks b) eqn:Hm.
  - destruct (Hplural (p, ks) out1 b Hin Hm) as [_ [Hpl _]]. unfold is_plural_at in *.
    destruct (mget b out1) as [v|] eqn:Hget; [|discriminate]. destruct v as [iv|r o f]; [discriminate|].
    rewrite (Hkeep b (PluralV r o f) (mget_in _ _ _ Hget) eq_refl). reflexivity.
  - apply existsb_exists in Hoth. destruct Hoth as [kv [Hmem Hform]]. apply in_members in Hmem.
    destruct Hmem as [Hkin [r [f [id Ht]]]]. unfold has_form, tag_form in Hform. rewrite Ht in Hform.
    apply form_eqb_eq in Hform. subst f.
    assert (Hkm : kv_merged ks kv = false) by (rewrite (kv_merged_tag _ _ _ _ _ _ Ht); exact Hm).
    pose proof (li_complete _ _ _ _ Hinv kv Hkin Hkm (settled_all ks kv Hkin)) as Hget.
    apply mget_in in Hget. pose proof (tag_leaf _ _ _ _ _ Ht) as Hleaf. rewrite Hleaf in Hget.
    apply (Hlone (fst kv, Kept (Leaf id)) b r id Hget).
    unfold lone_candidate. cbn [fst snd]. unfold tag_of in Ht. rewrite Hleaf in Ht. rewrite Ht, Hik, Hex. reflexivity.
Qed.

(** a key named like the base of a merged group collides whatever its value is: a string (the empty string is Leaf 0
    like any other), a number, a bool, a lone variable, a range table, an explicit `null` (modelled RangesV), sub-keys *)
Lemma collision_any_value : forall cats (v : ival),
  merge_level (fun _ => true) cats [] [(w_x, v); (w_x_one, Leaf 1); (w_x_other, Leaf 2)] = RErr ECollide [w_x].
Proof. intros cats v. destruct v; vm_compute; reflexivity. Qed.
