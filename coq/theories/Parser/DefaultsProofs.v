(** Termination (fuel adequacy) of the model of `DefaultedLocales::default_of` / `compute` (property C09). *)
From Coq Require Import List NArith Bool Arith Lia.
Import ListNotations.
From LI Require Import Base.StrOps.
From LI Require Import Base.StrLemmas.
From LI Require Import Parser.Defaults.

Lemma assoc_in k m v : assoc k m = Some v -> In k (map fst m).
Proof.
  induction m as [|[k' v'] r IH]; cbn [assoc map fst]; [discriminate|].
  destruct (str_eqb k k') eqn:E; [apply str_eqb_eq in E; subst; left; reflexivity | right; auto].
Qed.

Lemma mem_in k l : mem k l = true <-> In k l.
Proof.
  unfold mem. rewrite existsb_exists. split.
  - intros [x [Hx E]]. apply str_eqb_eq in E. subst. exact Hx.
  - intros H. exists k. split; [exact H | apply str_eqb_refl].
Qed.
Lemma mem_not_in k l : mem k l = false -> ~ In k l.
Proof. intros H Hin. apply mem_in in Hin. congruence. Qed.

(** a locale is reached from another one by following the table *)
Inductive reach (m : mapping) : str -> str -> Prop :=
| reach_refl a : reach m a a
| reach_step a k b : assoc a m = Some k -> reach m k b -> reach m a b.

Lemma reach_trans m a b c : reach m a b -> reach m b c -> reach m a c.
Proof. induction 1; [auto | intros; eapply reach_step; eauto]. Qed.

(** the visited locales are pairwise distinct keys of the table: there are at most [length m] of them *)
Definition inv (m : mapping) (visited : list str) (cur : str) : Prop :=
  NoDup visited /\ (forall v, In v visited -> In v (map fst m)) /\ ~ In cur visited.

Lemma inv_length m visited cur : inv m visited cur -> (length visited <= length m)%nat.
Proof.
  intros [Hnd [Hk _]]. rewrite <- (map_length fst m). apply NoDup_incl_length; [exact Hnd | exact Hk].
Qed.

Lemma inner_terminates m dflt start : forall fuel visited cur,
  inv m visited cur -> (S (length m) <= fuel + length visited)%nat -> reach m start cur ->
  exists l, default_of_inner fuel m dflt visited cur = Found l /\
            (l = dflt \/ (reach m start l /\ assoc l m = None)).
Proof.
  induction fuel as [|f IH]; intros visited cur Hinv Hfuel Hreach.
  - pose proof (inv_length _ _ _ Hinv). cbn in Hfuel. lia.
  - cbn [default_of_inner]. destruct (assoc cur m) as [k|] eqn:Ea.
    + destruct (mem k (cur :: visited)) eqn:Em.
      * exists dflt. split; [reflexivity | left; reflexivity].
      * apply IH.
        -- destruct Hinv as [Hnd [Hk Hc]]. repeat split.
           ++ constructor; assumption.
           ++ intros v [<-|Hv]; [eapply assoc_in; eauto | auto].
           ++ apply mem_not_in. exact Em.
        -- cbn [length]. lia.
        -- eapply reach_trans; [exact Hreach | eapply reach_step; [exact Ea | apply reach_refl]].
    + exists cur. split; [reflexivity | right; split; assumption].
Qed.

(** C09_default_of_terminates *)
Theorem default_of_terminates m dflt start :
  default_of m dflt start <> OutOfFuel /\
  exists l, default_of m dflt start = Found l /\ (l = dflt \/ (reach m start l /\ assoc l m = None)).
Proof.
  assert (H : exists l, default_of m dflt start = Found l /\ (l = dflt \/ (reach m start l /\ assoc l m = None))).
  { unfold default_of. apply inner_terminates.
    - repeat split; [constructor | intros v [] | intros []].
    - cbn. lia.
    - apply reach_refl. }
  split; [|exact H]. destruct H as [l [E _]]. rewrite E. discriminate.
Qed.

Theorem compute_terminates m dflt : Forall (fun p => snd p <> OutOfFuel) (compute m dflt).
Proof.
  unfold compute. apply Forall_forall. intros p Hp. apply in_map_iff in Hp as [kv [<- _]]. cbn [snd].
  apply default_of_terminates.
Qed.

(** the answer is a locale of the chain that has no entry, exactly when the plain walk finds one within the same number of steps *)
Lemma walk_plain_terminal m : forall fuel cur t, walk_plain fuel m cur = Some t -> reach m cur t /\ assoc t m = None.
Proof.
  induction fuel as [|f IH]; intros cur t H; cbn [walk_plain] in H; [discriminate|].
  destruct (assoc cur m) as [k|] eqn:E.
  - apply IH in H as [H1 H2]. split; [eapply reach_step; eauto | exact H2].
  - inversion H; subst. split; [apply reach_refl | exact E].
Qed.

(** sensitivity of the statement: with the visited set reduced to the starting locale (the seeded variant) the same fuel — and
    any fuel — runs out on a tail that leads into a loop avoiding the start *)
Definition l_en : str := [101; 110]. Definition l_aa : str := [97; 97]. Definition l_bb : str := [98; 98]. Definition l_cc : str := [99; 99].
Definition rho : mapping := [(l_aa, l_bb); (l_bb, l_cc); (l_cc, l_bb)].
Lemma start_only_refuted :
  default_of_inner_start_only (S (length rho)) rho l_en l_aa l_aa = OutOfFuel /\
  default_of_inner_start_only 1000 rho l_en l_aa l_aa = OutOfFuel /\
  default_of rho l_en l_aa = Found l_en /\ default_of rho l_en l_bb = Found l_en.
Proof. repeat split; vm_compute; reflexivity. Qed.

Example ex_chain : default_of [(l_aa, l_bb); (l_bb, l_cc)] l_en l_aa = Found l_cc.
Proof. vm_compute. reflexivity. Qed.
Example ex_self : default_of [(l_cc, l_cc)] l_en l_cc = Found l_en.
Proof. vm_compute. reflexivity. Qed.
Example ex_spec : spec_default_of rho l_en l_aa l_en = true /\ spec_default_of [(l_aa, l_bb)] l_en l_aa l_bb = true.
Proof. split; vm_compute; reflexivity. Qed.
