(** Canonical printer and well-formedness of the FULL source AST of Foreign.v ([xitem]: references
    with arguments), in which the full soundness statement of property C06 is stated
    (ForeignSound4.v) and proved (ForeignSound7.v).  Definitions only. *)
From Coq Require Import List NArith ZArith Bool Arith.
Import ListNotations.
From LI Require Import Base.StrOps Parser.Parse Parser.Json Parser.Reduce Parser.RoundTrip1 Parser.RoundTrip2
  Parser.RoundTripRef1 Parser.Foreign.
Open Scope N_scope.

Fixpoint join_with (sep : str) (l : list str) : str :=
  match l with
  | [] => []
  | x :: r => match r with [] => x | _ :: _ => x ++ sep ++ join_with sep r end
  end.

(** JSON text of a literal argument *)
Definition lit_json (l : lit) : str :=
  match l with
  | LStr s => c_quote :: s ++ [c_quote]
  | _ => lit_display l
  end.

Fixpoint xprint (i : xitem) : str :=
  match i with
  | XText s => s
  | XVar n => s_open_var ++ n ++ s_close_var
  | XComp n kids => (c_lt :: n ++ [c_gt]) ++ concat (map xprint kids) ++ (c_lt :: c_slash :: n ++ [c_gt])
  | XRef ns path args =>
      s_fk ++ (match ns with Some n => n ++ [c_colon] | None => [] end) ++ join_dot path
      ++ (match args with
          | [] => []
          | _ :: _ =>
              c_comma :: 32 :: c_lb ::
              join_with [c_comma; 32]
                (map (fun ka : str * xarg => c_quote :: fst ka ++ c_quote :: c_colon :: 32 :: xprint_arg (snd ka)) args)
              ++ [c_rb]
          end)
      ++ [c_rp]
  end
with xprint_arg (a : xarg) : str :=
  match a with
  | XAStr l => c_quote :: concat (map xprint l) ++ [c_quote]
  | XALit l => lit_json l
  end.
Definition xprint_list (l : list xitem) : str := concat (map xprint l).

(** characters allowed in the text of an argument string: no quote, backslash, control character, brace *)
Definition argch (c : char) : bool :=
  textch c && negb (c =? c_quote) && negb (c =? 92) && negb (c <? 32) && negb (c =? c_rb).

Section XWf.
Variable idc : str -> idres.
Fixpoint xwf (inarg : bool) (i : xitem) : bool :=
  match i with
  | XText s => forallb (if inarg then argch else textch) s
  | XVar n => name_wf idc s_var_ n
  | XComp n kids => name_wf idc s_comp_ n && forallb (xwf inarg) kids
  | XRef ns path args =>
      (match ns with Some n => name_wf idc [] n | None => true end)
      && nonnil path && forallb (name_wf idc []) path
      && nodup_strs (map fst args)
      (* inside a JSON string a nested argument object would need escaped quotes *)
      && (if inarg then match args with [] => true | _ :: _ => false end else true)
      && forallb (fun ka : str * xarg => name_wf idc s_var_ (fst ka) && xwf_arg (snd ka)) args
  end
with xwf_arg (a : xarg) : bool :=
  match a with
  | XAStr l => forallb (xwf true) l
    (* booleans and the integers serde reads back as the same literal; a JSON string is [XAStr] *)
  | XALit l => lit_ok l
  end.
Definition xitems_wf (l : list xitem) : bool := forallb (xwf false) l.
End XWf.
