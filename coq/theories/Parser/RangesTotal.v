(** Totality (no panic) of the range-count parser model of Parser/Ranges.v, for property C09 (pipeline part):
    `Range::new` on an arbitrary string, `T::from_{u64,i64,f64}` on an arbitrary JSON number and `RangeSeed::visit_seq`
    on arbitrarily nested count lists return a range, a descriptive error or (float numerals outside the oracle table)
    Unmodelled — never a panic — for every declared type, both before and after the non-finite repair. *)
From Coq Require Import List NArith ZArith Bool.
Import ListNotations.
From LI Require Import Base.StrOps.
From LI Require Import Parser.Ranges.

Definition nopanic {A} (r : res A) : Prop := forall s, r <> Panic s.

Lemma nopanic_ok {A} (a : A) : nopanic (Ok a).
Proof. intros s H; discriminate. Qed.
Lemma nopanic_err {A} e : nopanic (@Err A e).
Proof. intros s H; discriminate. Qed.
Lemma nopanic_unmodelled {A} : nopanic (@Unmodelled A).
Proof. intros s H; discriminate. Qed.

Lemma nopanic_bind {A B} (r : res A) (f : A -> res B) :
  nopanic r -> (forall a, nopanic (f a)) -> nopanic (bind r f).
Proof.
  intros Hr Hf s. destruct r as [a|e|s'|]; cbn [bind].
  - apply Hf.
  - discriminate.
  - intros _. exact (Hr s' eq_refl).
  - discriminate.
Qed.
Lemma nopanic_rmap {A B} (g : A -> B) (r : res A) : nopanic r -> nopanic (rmap g r).
Proof. intros H. unfold rmap. apply nopanic_bind; [exact H | intros a; apply nopanic_ok]. Qed.
Lemma nopanic_collect {A B} (f : A -> res B) l : (forall a, nopanic (f a)) -> nopanic (collect f l).
Proof.
  intros Hf. induction l as [|a t IH]; cbn [collect]; [apply nopanic_ok|].
  apply nopanic_bind; [apply Hf|]. intros b. apply nopanic_bind; [exact IH|]. intros bs. apply nopanic_ok.
Qed.

Section Total.
Variable strict : bool.
Variable t : rtype.
Variable tbl : ftable.

Lemma parse_num_nopanic s : nopanic (parse_num_g strict t tbl s).
Proof.
  unfold parse_num_g. destruct (ty_is_float t).
  - destruct (flookup tbl s) as [[v|]|]; [|apply nopanic_err|apply nopanic_unmodelled].
    destruct (negb strict || num_finite t v); [apply nopanic_ok | apply nopanic_err].
  - destruct (parse_int t s); [apply nopanic_ok | apply nopanic_err].
Qed.

Lemma range_new_bounds_nopanic s : nopanic (range_new_bounds_g strict t tbl s).
Proof.
  unfold range_new_bounds_g. destruct (split_once s_dotdot s) as [[start e]|].
  - apply nopanic_bind.
    + destruct (is_empty (trim start)); [apply nopanic_ok | apply nopanic_rmap, parse_num_nopanic].
    + intros st. apply nopanic_bind.
      * destruct (is_empty (trim e)); [apply nopanic_ok|].
        destruct (strip_prefix [c_eq] (trim e)); [apply nopanic_rmap, parse_num_nopanic|].
        apply nopanic_bind; [apply parse_num_nopanic|]. intros v.
        destruct (range_end_bound t v); [apply nopanic_ok | apply nopanic_err].
      * intros b. destruct st as [st|]; [|apply nopanic_ok].
        destruct b as [en|en|]; [destruct (num_ltb en st) | destruct (num_leb en st) |];
          first [apply nopanic_ok | apply nopanic_err].
  - apply nopanic_rmap, parse_num_nopanic.
Qed.

Lemma range_new_piece_nopanic s : nopanic (range_new_piece_g strict t tbl s).
Proof.
  unfold range_new_piece_g. destruct (str_fallback (trim s)); [apply nopanic_ok | apply range_new_bounds_nopanic].
Qed.

(** Range::new never panics, whatever the string *)
Theorem range_new_nopanic s : nopanic (range_new_g strict t tbl s).
Proof.
  unfold range_new_g. destruct (str_fallback (trim s)); [apply nopanic_ok|].
  destruct (existsb (N.eqb c_pipe) (trim s)); [|apply range_new_bounds_nopanic].
  apply nopanic_bind; [apply nopanic_collect, range_new_piece_nopanic | intros l; apply nopanic_ok].
Qed.

Lemma from_jnum_nopanic n : nopanic (from_jnum_g strict t n).
Proof.
  unfold from_jnum_g. destruct n as [z fv|z fv|fv]; destruct (ty_is_float t);
    repeat match goal with |- nopanic (if ?c then _ else _) => destruct c end;
    first [apply nopanic_ok | apply nopanic_err].
Qed.

(** RangeSeed: strings, numbers and arbitrarily nested lists of counts *)
Theorem parse_count_nopanic : forall c, nopanic (parse_count_g strict t tbl c).
Proof.
  fix IH 1. intros c. destruct c as [s|n|l|]; cbn [parse_count_g].
  - apply range_new_nopanic.
  - apply from_jnum_nopanic.
  - destruct l as [|first rest]; [apply nopanic_ok|].
    apply nopanic_bind; [apply IH|]. intros f. apply nopanic_bind.
    + induction rest as [|c r IHr]; [apply nopanic_ok|].
      apply nopanic_bind; [apply IH|]. intros x. apply nopanic_bind; [exact IHr|]. intros xs. apply nopanic_ok.
    + intros rs. destruct rs; apply nopanic_ok.
  - apply nopanic_err.
Qed.

Theorem parse_count_seq_nopanic l : nopanic (parse_count_seq_g strict t tbl l).
Proof. apply parse_count_nopanic. Qed.
End Total.
