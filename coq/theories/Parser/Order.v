(** Model of how a locale file's content becomes the sorted key maps, and of what is computed from them (property C10).

    Mirrors:
      leptos_i18n_parser/src/parse_locales/locale.rs
        LocaleSeed::visit_map      object members, in FILE ORDER, are inserted one by one into a `BTreeMap<Key, ParsedValue>`
                                   ([insert_all] / [build_val]); `Key::new` trims the member name ([key_of]);
                                   a member whose key is already present is an error (after the repair, see [build_val_old])
        Locale::make_builder_keys  walk of the default locale's map, one StringIndexer for the whole top locale ([index_default])
        Locale::merge / ParsedValue::merge
                                   walk of the DEFAULT locale's key map for every other locale: MissingKey warning and
                                   `Default` for absent keys, recursion into subkeys, a dummy all-`Default` sub-locale under an
                                   absent / null subkeys value, SubKeyMissmatch, then SurplusKey warnings in the locale's own
                                   key order ([merge_level])
      leptos_i18n_parser/src/parse_locales/mod.rs
        StringIndexer::push_str    first occurrence order, deduplicated ([push_all]); the HashMap is only looked up, never iterated
        check_locales_inner        default locale first, then the others in configuration order ([run_unit])
    What is abstracted: a non-object value is a leaf [JLeaf id pieces]: [id] identifies its content and [pieces] are its literal
    strings in `index_strings` order (value parsing does not see the surrounding object; it is C01's domain and read back from the
    implementation by the check).  Sequences (ranges) are leaves: their element order is content.  Plural merging, foreign keys
    and `inherits` are outside this model.  No proofs in this file. *)
From Coq Require Import List NArith Bool Arith.
Import ListNotations.
From LI Require Import Base.StrOps.
From LI Require Import Parser.Parse.
Open Scope N_scope.

(** * File content: members in file order *)
Inductive jv :=
| JLeaf (id : N) (pieces : list str) (refs : list (list str))   (* refs: the key paths its `$t(..)` foreign keys name *)
| JNull                                  (* `null` = ParsedValue::Default *)
| JObj (ms : list (str * jv)).           (* members in file order *)

(** * Sorted key maps *)
Inductive tree :=
| TLeaf (id : N) (pieces : list str) (refs : list (list str))
| TNull
| TSub (m : list (str * tree)).          (* BTreeMap<Key, ParsedValue>: ascending by key name *)
Definition smap := list (str * tree).

Definition key_of (raw : str) : str := trim raw.     (* Key::new(name).name *)
Definition has_key {V} (k : str) (m : list (str * V)) : bool := existsb (fun kv => str_eqb k (fst kv)) m.

(** the `while let Some(key) = map.next_key()? { value = map.next_value_seed()?; keys.insert(key, value) }` loop over the
    already-built values; [None] = the deserializer returned an error (duplicate key, or an error inside a nested object) *)
Fixpoint insert_all (l : list (str * option tree)) (acc : smap) : option smap :=
  match l with
  | [] => Some acc
  | (k, Some t) :: r => if has_key k acc then None else insert_all r (map_insert k t acc)
  | (_, None) :: _ => None
  end.

Fixpoint build_val (v : jv) : option tree :=
  match v with
  | JLeaf id ps rs => Some (TLeaf id ps rs)
  | JNull => Some TNull
  | JObj ms =>
      match insert_all (map (fun kv => (key_of (fst kv), build_val (snd kv))) ms) [] with
      | Some m => Some (TSub m)
      | None => None
      end
  end.
Definition build (ms : list (str * jv)) : option smap :=
  insert_all (map (fun kv => (key_of (fst kv), build_val (snd kv))) ms) [].

(** The code before the repair: `keys.insert(locale_key, value)` silently replaced an earlier member with the same key. *)
Fixpoint insert_all_old (l : list (str * option tree)) (acc : smap) : option smap :=
  match l with
  | [] => Some acc
  | (k, Some t) :: r => insert_all_old r (map_insert k t acc)
  | (_, None) :: _ => None
  end.
Fixpoint build_val_old (v : jv) : option tree :=
  match v with
  | JLeaf id ps rs => Some (TLeaf id ps rs)
  | JNull => Some TNull
  | JObj ms =>
      match insert_all_old (map (fun kv => (key_of (fst kv), build_val_old (snd kv))) ms) [] with
      | Some m => Some (TSub m)
      | None => None
      end
  end.
Definition build_old (ms : list (str * jv)) : option smap :=
  insert_all_old (map (fun kv => (key_of (fst kv), build_val_old (snd kv))) ms) [].

(** * Observables computed from the sorted maps *)
Definition mem_str (s : str) (l : list str) : bool := existsb (str_eqb s) l.
(** StringIndexer::push_str for each literal of a value, in order *)
Definition push_all (ps : list str) (tbl : list str) : list str :=
  fold_left (fun t s => if mem_str s t then t else t ++ [s]) ps tbl.

Definition path := list str.
Inductive warning := WMissing (li : N) (p : path) | WSurplus (li : N) (p : path).
Inductive err :=
| EDuplicateKey | EExplicitDefaultInDefault | ESubKeyMissmatch
| ERecursiveFK (li : N) (p : path)                 (* RecursiveForeignKey { locale, key_path } *)
| EMissingFK (li : N) (p target : path)            (* MissingForeignKey { foreign_key, locale, key_path } *)
| EInvalidFK (li : N) (p target : path)            (* InvalidForeignKey: the target is a subkeys group *)
| EUnmodelledFK.                                   (* a foreign key to an explicit default (inherits chain): outside this model *)

(** what the harness lists for one top locale: every key path of its (merged) map in map order with the value's identity
    (0 = `Default`), nested levels inline *)
Definition listing := list (path * N).

Record acc := mk_acc { a_tbl : list str; a_warn : list warning; a_list : listing }.

(** Locale::make_builder_keys on the default locale *)
Fixpoint index_default (p : path) (t : tree) (a : acc) : acc + err :=
  match t with
  | TLeaf id ps _ => inl (mk_acc (push_all ps (a_tbl a)) (a_warn a) (a_list a ++ [(p, id)]))
  | TNull => inr EExplicitDefaultInDefault
  | TSub m =>
      (fix go (m : smap) (a : acc) : acc + err :=
         match m with
         | [] => inl a
         | (k, v) :: r => match index_default (p ++ [k]) v a with
                          | inl a' => go r a'
                          | inr e => inr e
                          end
         end) m a
  end.

(** the dummy sub-locale `keys().map(|k| (k, Default))` merged below an absent / null subkeys value: no strings, no warnings *)
Fixpoint list_defaults (p : path) (d : tree) (l : listing) : listing :=
  match d with
  | TSub m =>
      (fix go (m : smap) (l : listing) : listing :=
         match m with
         | [] => l
         | (k, v) :: r => go r (list_defaults (p ++ [k]) v l)
         end) m l
  | _ => l ++ [(p, 0)]
  end.

(** a sub-locale that is not merged (its key is absent from the default locale) stays in place, untouched *)
Fixpoint list_raw (p : path) (t : tree) (l : listing) : listing :=
  match t with
  | TLeaf id _ _ => l ++ [(p, id)]
  | TNull => l ++ [(p, 0)]
  | TSub m =>
      (fix go (m : smap) (l : listing) : listing :=
         match m with
         | [] => l
         | (k, v) :: r => go r (list_raw (p ++ [k]) v l)
         end) m l
  end.

Fixpoint lookup (k : str) (m : smap) : option tree :=
  match m with
  | [] => None
  | (k', v) :: r => if str_eqb k k' then Some v else lookup k r
  end.

(** the listing of a merged level is in the order of the locale's own map after the absent default keys were inserted:
    the sorted union of both key sets.  [merge_keys] = that union (both inputs ascending). *)
Fixpoint union_keys (fuel : nat) (a b : list str) : list str :=
  match fuel with
  | O => []
  | S f =>
      match a, b with
      | [], _ => b
      | _, [] => a
      | x :: xs, y :: ys =>
          if str_eqb x y then x :: union_keys f xs ys
          else if str_ltb x y then x :: union_keys f xs b
          else y :: union_keys f a ys
      end
  end.

(** Locale::merge of one level: [d] the default locale's level, [own] this locale's level.
    Returned: strings pushed and warnings in emission order; the listing is produced afterwards by [list_merged]. *)
Fixpoint merge_level (fuel : nat) (li : N) (p : path) (d own : smap) (a : acc) : acc + err :=
  match fuel with
  | O => inl a
  | S f =>
      let step (a : acc + err) (kd : str * tree) : acc + err :=
        match a with
        | inr e => inr e
        | inl a =>
            let '(k, dv) := kd in
            let pk := p ++ [k] in
            match lookup k own with
            | None =>                                     (* Entry::Vacant: warning, then `Default` *)
                let a1 := mk_acc (a_tbl a) (a_warn a ++ [WMissing li pk]) (a_list a) in
                inl a1
            | Some TNull => inl a
            | Some (TSub om) =>
                match dv with
                | TSub dm => merge_level f li pk dm om a
                | _ => inr ESubKeyMissmatch
                end
            | Some (TLeaf _ ps _) =>
                match dv with
                | TSub _ => inr ESubKeyMissmatch
                | _ => inl (mk_acc (push_all ps (a_tbl a)) (a_warn a) (a_list a))
                end
            end
        end in
      match fold_left step d (inl a) with
      | inr e => inr e
      | inl a' =>
          (* reverse key comparison: SurplusKey for own keys the default locale does not have, in own map order *)
          inl (mk_acc (a_tbl a')
                      (a_warn a' ++ map (fun kv => WSurplus li (p ++ [fst kv]))
                                        (filter (fun kv => negb (has_key (fst kv) d)) own))
                      (a_list a'))
      end
  end.

(** listing of a merged top locale (walk of its final maps) *)
Fixpoint list_merged (fuel : nat) (p : path) (d own : smap) (l : listing) : listing :=
  match fuel with
  | O => l
  | S f =>
      fold_left (fun l k =>
        let pk := p ++ [k] in
        match lookup k own, lookup k d with
        | None, Some dv => list_defaults pk dv l                 (* inserted `Default` (dummy sub-locale below subkeys) *)
        | Some TNull, Some dv => list_defaults pk dv l
        | Some (TSub om), Some (TSub dm) => list_merged f pk dm om l
        | Some v, _ => list_raw pk v l                            (* leaf, or surplus value left untouched *)
        | None, None => l
        end) (union_keys (length d + length own + 1) (map fst d) (map fst own)) l
  end.

Fixpoint depth (t : tree) : nat :=
  match t with
  | TSub m => S ((fix go (m : smap) : nat := match m with [] => O | (_, v) :: r => Nat.max (depth v) (go r) end) m)
  | _ => 1%nat
  end.

Record out := mk_out {
  o_lists : list listing;          (* per top locale *)
  o_tables : list (list str);      (* per top locale: Locale.strings *)
  o_warnings : list warning }.     (* emission order *)

(** check_locales_inner on the sorted maps of one unit (one namespace): default first, others in configuration order *)
Fixpoint merge_others (li : N) (d : smap) (others : list smap) (o : out) : out + err :=
  match others with
  | [] => inl o
  | own :: r =>
      let fuel := S (depth (TSub d)) in
      match merge_level fuel li [] d own (mk_acc [] [] []) with
      | inr e => inr e
      | inl a =>
          merge_others (li + 1) d r
            (mk_out (o_lists o ++ [list_merged fuel [] d own []]) (o_tables o ++ [a_tbl a]) (o_warnings o ++ a_warn a))
      end
  end.

Definition run_sorted (maps : list smap) : out + err :=
  match maps with
  | [] => inl (mk_out [] [] [])
  | d :: others =>
      match index_default [] (TSub d) (mk_acc [] [] []) with
      | inr e => inr e
      | inl a => merge_others 1 d others (mk_out [a_list a] [a_tbl a] [])
      end
  end.

Fixpoint build_all (files : list (list (str * jv))) : option (list smap) :=
  match files with
  | [] => Some []
  | f :: r => match build f, build_all r with
              | Some m, Some ms => Some (m :: ms)
              | _, _ => None
              end
  end.

(** * Foreign keys: which key an error names.
    `ForeignKeysPaths` is a `BTreeSet<(Key, KeyPath)>`: every value holding a `$t(..)` registers (top locale, its key path)
    while the files are read; a SET does not remember the registration order, so the registered set is taken here from the
    sorted maps.  `resolve_foreign_keys` walks that set in ascending (locale NAME, key path) order and resolves each value
    depth first: a value that is entered again while one of its own foreign keys is being resolved (the `RefCell` is borrowed)
    is reported as RecursiveForeignKey at THAT key; a target that does not exist / is a subkeys group is reported at the
    referring key.  The first error ends the run.  Arguments, explicit-default targets and `inherits` are not modelled. *)
Definition path_eqb (a b : path) : bool :=
  (fix eq (x y : list str) := match x, y with
                              | [], [] => true
                              | s :: r, t :: u => str_eqb s t && eq r u
                              | _, _ => false
                              end) a b.
Fixpoint path_ltb (a b : path) : bool :=          (* Vec<Key> ordering: lexicographic, a proper prefix is smaller *)
  match a, b with
  | _, [] => false
  | [], _ :: _ => true
  | x :: xs, y :: ys => if str_eqb x y then path_ltb xs ys else str_ltb x y
  end.
Definition path_mem (p : path) (l : list path) : bool := existsb (path_eqb p) l.

(** Locale::get_value_at *)
Fixpoint lookup_path (p : path) (m : smap) : option tree :=
  match p with
  | [] => None
  | [k] => lookup k m
  | k :: r => match lookup k m with Some (TSub m') => lookup_path r m' | _ => None end
  end.

Fixpoint resolve (fuel : nat) (li : N) (m : smap) (stack : list path) (p : path) : option err :=
  match fuel with
  | O => Some EUnmodelledFK
  | S f =>
      if path_mem p stack then Some (ERecursiveFK li p)
      else match lookup_path p m with
           | Some (TLeaf _ _ refs) =>
               (fix go (rs : list path) : option err :=
                  match rs with
                  | [] => None
                  | r :: rest =>
                      match lookup_path r m with
                      | None => Some (EMissingFK li p r)
                      | Some TNull => Some EUnmodelledFK
                      | Some (TSub _) => Some (EInvalidFK li p r)
                      | Some (TLeaf _ _ _) =>
                          match resolve f li m (p :: stack) r with
                          | Some e => Some e
                          | None => go rest
                          end
                      end
                  end) refs
           | _ => None
           end
  end.

(** key paths of the values holding a foreign key, in map order *)
Fixpoint fk_paths (p : path) (t : tree) (acc : list path) : list path :=
  match t with
  | TLeaf _ _ (_ :: _) => acc ++ [p]
  | TSub m =>
      (fix go (m : smap) (acc : list path) : list path :=
         match m with
         | [] => acc
         | (k, v) :: r => go r (fk_paths (p ++ [k]) v acc)
         end) m acc
  | _ => acc
  end.

Definition reg := (str * N * path)%type.           (* locale name, locale index, key path *)
Definition reg_ltb (a b : reg) : bool :=
  let '(na, _, pa) := a in let '(nb, _, pb) := b in
  if str_eqb na nb then path_ltb pa pb else str_ltb na nb.
Fixpoint reg_insert (x : reg) (l : list reg) : list reg :=
  match l with
  | [] => [x]
  | y :: r => if reg_ltb x y then x :: l else y :: reg_insert x r
  end.
Fixpoint registered (names : list str) (li : N) (maps : list smap) : list reg :=
  match maps with
  | [] => []
  | m :: r => fold_right reg_insert (registered (tl names) (li + 1) r)
                         (map (fun p => (hd [] names, li, p)) (fk_paths [] (TSub m) []))
  end.

Definition resolve_all (names : list str) (maps : list smap) : option err :=
  let regs := registered names 0 maps in
  (fix go (l : list reg) : option err :=
     match l with
     | [] => None
     | (_, li, p) :: r =>
         match resolve (S (S (length regs))) li (nth (N.to_nat li) maps []) [] p with
         | Some e => Some e
         | None => go r
         end
     end) regs.

(** the whole model: the files of one unit (member lists in file order, default locale first; [names]: the locales' names)
    to the observables.  Order of the stages as in `parse_locales`: reading the files (duplicate keys), foreign keys,
    then the default locale and the merge of the others. *)
Definition from_sorted (names : list str) (o : option (list smap)) : out + err :=
  match o with
  | None => inr EDuplicateKey
  | Some maps => match resolve_all names maps with
                 | Some e => inr e
                 | None => run_sorted maps
                 end
  end.
Definition run_unit (names : list str) (files : list (list (str * jv))) : out + err :=
  from_sorted names (build_all files).

(** * "The same content in another key order": members permuted at every nesting level *)
Fixpoint jv_eqb (a b : jv) {struct a} : bool :=
  match a, b with
  | JLeaf i ps _, JLeaf j qs _ => (i =? j) && (fix eq (x y : list str) := match x, y with
                                                                       | [], [] => true
                                                                       | s :: r, t :: u => str_eqb s t && eq r u
                                                                       | _, _ => false
                                                                       end) ps qs
  | JNull, JNull => true
  | JObj ms, JObj ns =>
      Nat.eqb (length ms) (length ns) &&
      (fix all (l : list (str * jv)) : bool :=
         match l with
         | [] => true
         | (k, v) :: r =>
             (fix find (c : list (str * jv)) : bool :=
                match c with
                | [] => false
                | (k', v') :: c' => (str_eqb k k' && jv_eqb v v') || find c'
                end) ns && all r
         end) ms
  | _, _ => false
  end.
