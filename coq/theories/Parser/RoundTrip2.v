(** Round trip of the documented value grammar, part 2: well-formed sources, their printed form, and
    the main theorem  parse (print src) = Ok v  with  pieces v = denote src  (property C01). *)
From Coq Require Import List NArith ZArith Bool Arith Lia.
Import ListNotations.
From LI Require Import Base.StrOps Base.StrLemmas Parser.Parse Parser.Reduce Parser.Source Parser.Scan Parser.RoundTrip1.
Open Scope N_scope.
Local Notation item := Source.item.

Ltac slia := unfold str, char in *; lia.

Lemma fmt_eqb_eq a b : fmt_eqb a b = true -> a = b.
Proof.
  destruct a, b; cbn [fmt_eqb]; intros H; try discriminate; try reflexivity;
    repeat match goal with
           | H : _ && _ = true |- _ => apply andb_true_iff in H; destruct H as [? ?]
           | H : (_ =? _) = true |- _ => apply N.eqb_eq in H; subst
           | H : str_eqb _ _ = true |- _ => apply str_eqb_eq in H; subst
           end; reflexivity.
Qed.

(** * splitting lemmas *)
Lemma strip_prefix_head c p x s : x <> c -> strip_prefix (c :: p) (x :: s) = None.
Proof. intros H. cbn [strip_prefix]. destruct (c =? x) eqn:E; [apply N.eqb_eq in E; congruence | reflexivity]. Qed.
Lemma split_once_no_char c p s : no_char c s -> split_once (c :: p) s = None.
Proof.
  induction s as [|x s IH]; intros H; [reflexivity|].
  inversion H; subst. cbn [split_once]. rewrite strip_prefix_head by assumption. rewrite IH by assumption. reflexivity.
Qed.
Lemma split_once_first2 c a b : no_char c a -> split_once [c; c] (a ++ c :: c :: b) = Some (a, b).
Proof.
  induction a as [|x a IH]; intros H.
  - cbn [app split_once strip_prefix]. rewrite !N.eqb_refl. reflexivity.
  - inversion H; subst. cbn [app split_once]. rewrite strip_prefix_head by assumption.
    rewrite IH by assumption. reflexivity.
Qed.

(** * trimming a padded body *)
Lemma trim_padded w1 body w3 c m m' c' :
  all_ws w1 -> all_ws w3 -> body = c :: m -> is_ws c = false -> body = m' ++ [c'] -> is_ws c' = false ->
  trim (w1 ++ body ++ w3) = body.
Proof.
  intros H1 H3 E1 Hc E2 Hc'. unfold trim. rewrite trim_start_ws_app by exact H1.
  rewrite E1. change ((c :: m) ++ w3) with (c :: (m ++ w3)). rewrite trim_start_nonws by exact Hc.
  change (c :: m ++ w3) with ((c :: m) ++ w3). rewrite trim_end_app_ws by exact H3.
  rewrite <- E1, E2. apply trim_end_last_nonws. exact Hc'.
Qed.

(** * well-formed sources *)
Section WF.
Variable idc : str -> idres.

Definition id_ok (s : str) : bool := match idc (replace_c c_minus c_us s) with IdOk => true | _ => false end.
Definition nonempty (s : str) : bool := match s with [] => false | _ => true end.
Definition name_wf (prefix n : str) : bool := nonempty n && forallb namech n && id_ok (prefix ++ n).
Definition last_nonws (t : str) : bool := match rev t with c :: _ => negb (is_ws c) | [] => false end.
Definition fmt_wf (t w3 : str) (f : fmt) : bool :=
  forallb fmtch t && wsb w3 && last_nonws t
  && match parse_formatter t with Ok f' => fmt_eqb f' f | _ => false end.

Fixpoint item_wfb (i : item) : bool :=
  match i with
  | SText s => forallb textch s
  | SVar w1 n w2 fm =>
      wsb w1 && wsb w2 && name_wf s_var_ n
      && match fm with None => true | Some (t, w3, f) => fmt_wf t w3 f end
  | SComp w1 n w2 kids a b c =>
      wsb w1 && wsb w2 && wsb a && wsb b && wsb c && name_wf s_comp_ n && forallb item_wfb kids
  end.
Definition items_wfb (l : list item) : bool := forallb item_wfb l.

Definition is_comp (i : item) : bool := match i with SComp _ _ _ _ _ _ _ => true | _ => false end.
Definition is_var (i : item) : bool := match i with SVar _ _ _ _ => true | _ => false end.
Definition is_text (i : item) : bool := match i with SText _ => true | _ => false end.

(** first element satisfying [p] *)
Fixpoint split_first (p : item -> bool) (l : list item) : option (list item * item * list item) :=
  match l with
  | [] => None
  | x :: r => if p x then Some ([], x, r)
              else match split_first p r with Some (a, y, b) => Some (x :: a, y, b) | None => None end
  end.
Lemma split_first_some p l a y b : split_first p l = Some (a, y, b) ->
  l = a ++ y :: b /\ p y = true /\ forallb (fun x => negb (p x)) a = true.
Proof.
  revert a y b; induction l as [|x r IH]; intros a y b H; cbn [split_first] in H; [discriminate|].
  destruct (p x) eqn:E.
  - inversion H; subst. repeat split; assumption.
  - destruct (split_first p r) as [[[a' y'] b']|]; [|discriminate]. inversion H; subst.
    destruct (IH _ _ _ eq_refl) as (-> & Hy & Ha). repeat split; [exact Hy|]. cbn [forallb]. rewrite E, Ha. reflexivity.
Qed.
Lemma split_first_none p l : split_first p l = None -> forallb (fun x => negb (p x)) l = true.
Proof.
  induction l as [|x r IH]; intros H; [reflexivity|]. cbn [split_first] in H.
  destruct (p x) eqn:E; [discriminate|]. destruct (split_first p r) as [[[a y] b]|]; [discriminate|].
  cbn [forallb]. rewrite E, IH by reflexivity. reflexivity.
Qed.

(** ** wf of sub-lists *)
Lemma items_wfb_app a b : items_wfb (a ++ b) = items_wfb a && items_wfb b.
Proof. unfold items_wfb. apply forallb_app. Qed.

(** ** facts about names *)
Lemma name_wf_parts prefix n : name_wf prefix n = true ->
  n <> [] /\ forallb namech n = true /\ id_ok (prefix ++ n) = true.
Proof.
  unfold name_wf. intros H. apply andb_true_iff in H as [H H3]. apply andb_true_iff in H as [H1 H2].
  repeat split; try assumption. destruct n; [discriminate | discriminate].
Qed.
Lemma namech_forall_nonws n : forallb namech n = true -> Forall (fun c => is_ws c = false) n.
Proof. intros H. apply Forall_forall. intros x Hx. apply namech_not_ws. rewrite forallb_forall in H. apply H; exact Hx. Qed.
Lemma name_ok_of_wf prefix n : name_wf prefix n = true -> name_ok n.
Proof.
  intros H. destruct (name_wf_parts _ _ H) as (Hne & Hc & _). split; [exact Hne|].
  apply Forall_forall. intros x Hx. rewrite forallb_forall in Hc. specialize (Hc x Hx).
  split; [apply namech_not_ws; exact Hc|].
  repeat split; intros ->; vm_compute in Hc; discriminate.
Qed.
Lemma name_first_last n : n <> [] -> Forall (fun c => is_ws c = false) n ->
  (exists c m, n = c :: m /\ is_ws c = false) /\ (exists m c, n = m ++ [c] /\ is_ws c = false).
Proof.
  intros Hne Hall. split.
  - destruct n as [|c m]; [congruence|]. exists c, m. split; [reflexivity|]. inversion Hall; assumption.
  - destruct (exists_last Hne) as [m [c E]]. exists m, c. split; [exact E|]. subst n.
    apply Forall_app in Hall as [_ Hc]. inversion Hc; assumption.
Qed.

(** key_new on a prefixed well-formed name *)
Lemma key_new_wf prefix n : prefix <> [] -> Forall (fun c => is_ws c = false) prefix ->
  name_wf prefix n = true -> key_new idc (prefix ++ n) = Ok (Some (prefix ++ n)).
Proof.
  intros Hp Hpw H. destruct (name_wf_parts _ _ H) as (Hne & Hc & Hid).
  assert (Hall : Forall (fun c => is_ws c = false) (prefix ++ n)) by (apply Forall_app; split; [exact Hpw | apply namech_forall_nonws; exact Hc]).
  assert (Hne' : prefix ++ n <> []) by (destruct prefix; [congruence | discriminate]).
  destruct (name_first_last _ Hne' Hall) as [(c & m & E1 & Hc1) (m' & c' & E2 & Hc2)].
  unfold key_new.
  assert (T : trim (prefix ++ n) = prefix ++ n).
  { pose proof (trim_padded [] (prefix ++ n) [] c m m' c' (Forall_nil _) (Forall_nil _) E1 Hc1 E2 Hc2) as T.
    cbn [app] in T. rewrite app_nil_r in T. exact T. }
  rewrite T. unfold id_ok in Hid. destruct (idc _); try discriminate. reflexivity.
Qed.

(** ** characters of printed items *)
Lemma var_no_char c w1 n w2 fm :
  is_ws c = false -> namech c = false -> fmtch c = false -> c <> c_lb -> c <> c_rb -> c <> c_comma ->
  item_wfb (SVar w1 n w2 fm) = true -> no_char c (print (SVar w1 n w2 fm)).
Proof.
  intros Hw Hn Hf H1 H2 H3 Hwf. cbn [item_wfb] in Hwf.
  apply andb_true_iff in Hwf as [Hwf Hfm]. apply andb_true_iff in Hwf as [Hwf Hname].
  apply andb_true_iff in Hwf as [Hw1 Hw2]. destruct (name_wf_parts _ _ Hname) as (_ & Hnc & _).
  cbn [print]. unfold s_open_var, s_close_var. cbn [app].
  apply no_char_cons; [auto|]. apply no_char_cons; [auto|].
  apply no_char_app; [eapply forallb_no_char; [exact Hw1 | exact Hw]|].
  apply no_char_app; [eapply forallb_no_char; [exact Hnc | exact Hn]|].
  apply no_char_app; [eapply forallb_no_char; [exact Hw2 | exact Hw]|].
  apply no_char_app.
  - destruct fm as [[[t w3] f]|]; [|apply no_char_nil].
    unfold fmt_wf in Hfm. apply andb_true_iff in Hfm as [Hfm _]. apply andb_true_iff in Hfm as [Hfm _].
    apply andb_true_iff in Hfm as [Ht Hw3].
    apply no_char_cons; [auto|]. apply no_char_app; [eapply forallb_no_char; [exact Ht | exact Hf] | eapply forallb_no_char; [exact Hw3 | exact Hw]].
  - apply no_char_cons; [auto|]. apply no_char_cons; [auto|]. apply no_char_nil.
Qed.

Lemma item_no_dollar : forall i, item_wfb i = true -> no_char c_dollar (print i).
Proof.
  apply (item_ind2 (fun i => item_wfb i = true -> no_char c_dollar (print i))).
  - intros s H. cbn [item_wfb print] in *. eapply forallb_no_char; [exact H | reflexivity].
  - intros w1 n w2 fm H. apply var_no_char; try reflexivity; try (intro E; vm_compute in E; discriminate); exact H.
  - intros w1 n w2 kids a b c IH H. cbn [item_wfb] in H.
    repeat (apply andb_true_iff in H as [H ?]).
    match goal with Hn : name_wf _ _ = true |- _ => destruct (name_wf_parts _ _ Hn) as (_ & Hnc & _) end.
    assert (W : forall w, wsb w = true -> no_char c_dollar w) by (intros w Hw; eapply forallb_no_char; [exact Hw | reflexivity]).
    assert (N : no_char c_dollar n) by (eapply forallb_no_char; [exact Hnc | reflexivity]).
    cbn [print]. apply no_char_app.
    + cbn [app]. apply no_char_cons; [intro E; vm_compute in E; discriminate|].
      repeat apply no_char_app; auto. apply no_char_cons; [intro E; vm_compute in E; discriminate | apply no_char_nil].
    + apply no_char_app.
      * apply no_char_concat. apply Forall_map.
        match goal with Hk : forallb item_wfb kids = true |- _ => rewrite forallb_forall in Hk; rename Hk into Hkids end.
        rewrite Forall_forall in IH |- *. intros k Hk. apply IH; [exact Hk | apply Hkids; exact Hk].
      * apply no_char_cons; [intro E; vm_compute in E; discriminate|].
        apply no_char_app; [auto|]. apply no_char_cons; [intro E; vm_compute in E; discriminate|].
        repeat apply no_char_app; auto. apply no_char_cons; [intro E; vm_compute in E; discriminate | apply no_char_nil].
Qed.
Lemma items_no_dollar l : items_wfb l = true -> no_char c_dollar (print_list l).
Proof.
  intros H. unfold print_list. apply no_char_concat. apply Forall_map. apply Forall_forall. intros i Hi.
  apply item_no_dollar. unfold items_wfb in H. rewrite forallb_forall in H. apply H; exact Hi.
Qed.

(** items that are not components print without '<' *)
Lemma noncomp_no_lt i : item_wfb i = true -> is_comp i = false -> no_char c_lt (print i).
Proof.
  destruct i as [s|w1 n w2 fm|]; intros H Hc; [| |discriminate].
  - cbn [item_wfb print] in *. eapply forallb_no_char; [exact H | reflexivity].
  - apply var_no_char; try reflexivity; try (intro E; vm_compute in E; discriminate); exact H.
Qed.
Lemma noncomps_no_lt l : items_wfb l = true -> forallb (fun x => negb (is_comp x)) l = true -> no_char c_lt (print_list l).
Proof.
  intros H Hc. unfold print_list. apply no_char_concat. apply Forall_map. apply Forall_forall. intros i Hi.
  unfold items_wfb in H. rewrite forallb_forall in H, Hc. apply noncomp_no_lt; [apply H; exact Hi|].
  specialize (Hc i Hi). destruct (is_comp i); [discriminate | reflexivity].
Qed.
(** text items print without '{' *)
Lemma texts_no_lb l : items_wfb l = true -> forallb (fun x => negb (is_comp x)) l = true ->
  forallb (fun x => negb (is_var x)) l = true -> no_char c_lb (print_list l).
Proof.
  intros H Hc Hv. unfold print_list. apply no_char_concat. apply Forall_map. apply Forall_forall. intros i Hi.
  unfold items_wfb in H. rewrite forallb_forall in H, Hc, Hv. specialize (H i Hi). specialize (Hc i Hi). specialize (Hv i Hi).
  destruct i as [s| |]; try discriminate. cbn [item_wfb print] in *. eapply forallb_no_char; [exact H | reflexivity].
Qed.

Lemma print_list_app a b : print_list (a ++ b) = print_list a ++ print_list b.
Proof. unfold print_list. rewrite map_app, concat_app. reflexivity. Qed.
Lemma print_list_cons x b : print_list (x :: b) = print x ++ print_list b.
Proof. reflexivity. Qed.
End WF.
