(** Round trip for sources containing references, part 2: the component finder generalised to the
    token trees of Scan.v (any prefix without '<'), and the finders on printed sources with references. *)
From Coq Require Import List NArith ZArith Bool Arith Lia.
Import ListNotations.
From LI Require Import Base.StrOps Base.StrLemmas Parser.Parse Parser.Reduce Parser.Source Parser.Scan
  Parser.RoundTrip1 Parser.RoundTrip2 Parser.RoundTrip3 Parser.RoundTrip4 Parser.ReduceProofs Parser.RoundTripRef1.
Open Scope N_scope.
Local Notation item := Source.item.
Ltac slia := unfold str, char in *; lia.

(** * source items as token trees of Scan.v: text, variables and argument-less references are text
    without '<'; a reference with arguments is a run of tokens (its argument strings may hold
    components, which are balanced) *)
Fixpoint aconv (a : aitem) : Scan.item :=
  match a with
  | AComp w1 n w2 kids a b c => IComp w1 w2 a b c n (map aconv kids)
  | AText s => IText s
  | AVar w1 n w2 fm => IText (aprint (AVar w1 n w2 fm))
  | ARef ns path => IText (aprint (ARef ns path))
  end.
Definition key_open (k : str) : str := c_quote :: k ++ c_quote :: c_colon :: 32 :: [c_quote].
Definition argtoks (ka : str * rarg) : list Scan.item :=
  match snd ka with
  | RAStr its => IText (key_open (fst ka)) :: map aconv its ++ [IText [c_quote]]
  | RALit l => [IText (member_text (fst ka, lit_display l))]
  end.
Fixpoint memtoks (args : list (str * rarg)) : list Scan.item :=
  match args with
  | [] => []
  | x :: r => match r with [] => argtoks x | _ :: _ => argtoks x ++ IText [c_comma; 32] :: memtoks r end
  end.
Definition refa_open (ns : option pseg) (path : list pseg) : str := s_fk ++ keypath_text ns path ++ [c_comma; 32; c_lb].
Definition refatoks (ns : option pseg) (path : list pseg) (args : list (str * rarg)) : list Scan.item :=
  IText (refa_open ns path) :: memtoks args ++ [IText [c_rb; c_rp]].
Fixpoint rconv (i : ritem) : list Scan.item :=
  match i with
  | RText s => [IText s]
  | RVar w1 n w2 fm => [IText (rprint (RVar w1 n w2 fm))]
  | RComp w1 n w2 kids a b c => [IComp w1 w2 a b c n (flat_map rconv kids)]
  | RRef ns path => [IText (rprint (RRef ns path))]
  | RRefA ns path args => refatoks ns path args
  end.
Definition rconvs (l : list ritem) : list Scan.item := flat_map rconv l.

Lemma toks_list_app a b : toks_list (a ++ b) = toks_list a ++ toks_list b.
Proof. induction a as [|x a IH]; [reflexivity|]. cbn [app toks_list]. rewrite IH, app_assoc. reflexivity. Qed.
Lemma flats_toks_app a b : flats (toks_list (a ++ b)) = flats (toks_list a) ++ flats (toks_list b).
Proof. rewrite toks_list_app. apply flats_app. Qed.
Lemma flats_text s : flats (toks_list [IText s]) = s.
Proof. cbn. rewrite !app_nil_r. reflexivity. Qed.
Lemma flats_cons_text s l : flats (toks_list (IText s :: l)) = s ++ flats (toks_list l).
Proof. change (IText s :: l) with ([IText s] ++ l). rewrite flats_toks_app, flats_text. reflexivity. Qed.
Lemma items_wf_app a b : Scan.items_wf a -> Scan.items_wf b -> Scan.items_wf (a ++ b).
Proof. induction a as [|x a IH]; intros Ha Hb; [exact Hb|]. cbn [app Scan.items_wf] in *. destruct Ha as [H1 H2]. split; [exact H1 | apply IH; assumption]. Qed.

Lemma flats_comp w1 w2 a b c n kids :
  flats (toks (IComp w1 w2 a b c n kids)) = open_tag w1 n w2 ++ flats (toks_list kids) ++ close_tag a b n c.
Proof.
  rewrite toks_comp.
  change (TOpen w1 w2 n :: toks_list kids ++ [TClose a b c n]) with ([TOpen w1 w2 n] ++ toks_list kids ++ [TClose a b c n]).
  rewrite !flats_app. unfold flats at 1 3. cbn [map concat flat]. rewrite !app_nil_r. reflexivity.
Qed.
Lemma flats_item_list (l : list Scan.item) (f : Scan.item -> str) :
  Forall (fun k => flats (toks k) = f k) l -> flats (toks_list l) = concat (map f l).
Proof. induction 1 as [|k r Hk Hr IH]; [reflexivity|]. cbn [toks_list map concat]. rewrite flats_app, Hk, IH. reflexivity. Qed.

Lemma flats_aconv : forall a, flats (toks (aconv a)) = aprint a.
Proof.
  apply (aitem_ind2 (fun a => flats (toks (aconv a)) = aprint a)).
  - intros s. cbn. apply app_nil_r.
  - intros w1 n w2 fm. cbn [aconv toks]. unfold flats. cbn [map concat flat]. apply app_nil_r.
  - intros w1 n w2 kids a b c IH. cbn [aconv aprint]. rewrite flats_comp. f_equal. f_equal.
    induction IH as [|k r Hk Hr IHr]; [reflexivity|]. cbn [map toks_list concat]. rewrite flats_app, Hk, IHr. reflexivity.
  - intros ns path. cbn [aconv toks]. unfold flats. cbn [map concat flat]. apply app_nil_r.
Qed.
Lemma flats_aconvs l : flats (toks_list (map aconv l)) = aprint_list l.
Proof.
  induction l as [|a r IH]; [reflexivity|]. cbn [map toks_list]. unfold aprint_list in *. cbn [map concat].
  rewrite flats_app, flats_aconv, IH. reflexivity.
Qed.

Lemma flats_argtoks ka : flats (toks_list (argtoks ka)) = member_text (fst ka, value_text (snd ka)).
Proof.
  unfold argtoks. destruct (snd ka) as [its|l].
  - rewrite flats_cons_text, flats_toks_app, flats_aconvs, flats_text. unfold key_open, member_text, value_text. cbn [fst snd app].
    rewrite <- !app_assoc. reflexivity.
  - rewrite flats_text. reflexivity.
Qed.
Lemma members_text_cons2 x l : l <> [] -> members_text (x :: l) = member_text x ++ c_comma :: 32 :: members_text l.
Proof. destruct l; [congruence | reflexivity]. Qed.
Lemma flats_memtoks args : flats (toks_list (memtoks args)) = members_text (args_text args).
Proof.
  induction args as [|ka r IH]; [reflexivity|]. destruct r as [|kb r'].
  - cbn [memtoks args_text map members_text]. apply flats_argtoks.
  - set (r := kb :: r') in *. change (memtoks (ka :: r)) with (argtoks ka ++ IText [c_comma; 32] :: memtoks r).
    change (args_text (ka :: r)) with ((fst ka, value_text (snd ka)) :: args_text r).
    rewrite members_text_cons2 by (unfold r; discriminate).
    rewrite flats_toks_app, flats_argtoks, flats_cons_text, IH. reflexivity.
Qed.
Lemma flats_refatoks ns path args : flats (toks_list (refatoks ns path args)) = print_refa ns path args.
Proof.
  unfold refatoks. rewrite flats_cons_text, flats_toks_app, flats_memtoks, flats_text.
  unfold refa_open, print_refa, obj_text. rewrite <- !app_assoc. cbn [app]. rewrite <- !app_assoc. reflexivity.
Qed.

Lemma flats_rconv : forall i, flats (toks_list (rconv i)) = rprint i.
Proof.
  apply (ritem_ind2 (fun i => flats (toks_list (rconv i)) = rprint i)).
  - intros s. apply flats_text.
  - intros w1 n w2 fm. apply flats_text.
  - intros w1 n w2 kids a b c IH. cbn [rconv toks_list]. rewrite app_nil_r, flats_comp, rprint_comp. f_equal. f_equal.
    induction IH as [|k r Hk Hr IHr]; [reflexivity|]. cbn [flat_map]. rewrite flats_toks_app, Hk, IHr. reflexivity.
  - intros ns path. apply flats_text.
  - intros ns path args. apply flats_refatoks.
Qed.
Lemma flats_rconv_items l : flats (toks_list (rconvs l)) = rprint_list l.
Proof.
  induction l as [|i r IH]; [reflexivity|]. unfold rconvs in *. cbn [flat_map]. rewrite flats_toks_app, flats_rconv, IH. reflexivity.
Qed.

Section RT.
Variable idc : str -> idres.
Variable json_args : str -> res (list (str * jarg)).
Notation ritem_wfb := (ritem_wfb idc).
Notation ritems_wfb := (ritems_wfb idc).
Notation name_wf := (name_wf idc).

(** a component whose name the identifier oracle accepts *)
Definition top_ok (it : Scan.item) : Prop :=
  match it with IText _ => True | IComp _ _ _ _ _ n _ => name_wf s_comp_ n = true end.

Lemma aconv_wf : forall a, aitem_wfb idc a = true -> Scan.item_wf (aconv a) /\ top_ok (aconv a).
Proof.
  apply (aitem_ind2 (fun a => aitem_wfb idc a = true -> Scan.item_wf (aconv a) /\ top_ok (aconv a))).
  - intros s H. cbn [aitem_wfb] in H. apply andb_true_iff in H as [H _]. split; [|exact I].
    cbn [aconv Scan.item_wf]. eapply forallb_no_char; [exact H | reflexivity].
  - intros w1 n w2 fm H. split; [|exact I]. cbn [aconv Scan.item_wf aprint].
    apply (var_no_char idc); try reflexivity; try (intro E; vm_compute in E; discriminate); exact H.
  - intros w1 n w2 kids a b c IH H. cbn [aitem_wfb] in H. repeat (apply andb_true_iff in H as [H ?]).
    split; [|cbn [aconv top_ok]; assumption].
    cbn [aconv]. apply item_wf_comp.
    refine (conj _ (conj _ (conj _ (conj _ (conj _ (conj _ _)))))); try (apply wsb_all_ws; assumption).
    + eapply name_ok_of_wf; eassumption.
    + match goal with Hk : forallb (aitem_wfb idc) kids = true |- _ => rename Hk into Hkids end.
      clear -IH Hkids. induction IH as [|k r Hk Hr IHr]; [exact I|].
      cbn [forallb] in Hkids. apply andb_true_iff in Hkids as [H1 H2]. cbn [map Scan.items_wf].
      split; [apply Hk; exact H1 | apply IHr; exact H2].
  - intros ns path H. split; [|exact I]. cbn [aconv Scan.item_wf aprint].
    apply (ref_no_char idc); try reflexivity; try (intro E; vm_compute in E; discriminate); exact H.
Qed.
Lemma aconvs_wf l : forallb (aitem_wfb idc) l = true -> Scan.items_wf (map aconv l) /\ Forall top_ok (map aconv l).
Proof.
  induction l as [|a r IH]; intros H; [split; [exact I | constructor]|].
  cbn [forallb] in H. apply andb_true_iff in H as [Ha Hr]. destruct (aconv_wf a Ha) as [W T]. destruct (IH Hr) as [Wr Tr].
  cbn [map Scan.items_wf]. split; [split; assumption | constructor; assumption].
Qed.

Lemma text_tok_wf s : no_char c_lt s -> Scan.items_wf [IText s] /\ Forall top_ok [IText s].
Proof. intros H. split; [cbn; auto | repeat constructor]. Qed.
Lemma key_no_lt k : name_wf s_var_ k = true -> no_char c_lt k.
Proof. intros H. destruct (name_wf_parts idc _ _ H) as (_ & Hnc & _). eapply forallb_no_char; [exact Hnc | reflexivity]. Qed.

(** the display of an accepted literal: decimal digits, '-', or true / false *)
Definition litch (c : char) : bool := ((48 <=? c) && (c <=? 57)) || (c =? 45) || ((97 <=? c) && (c <=? 122)).
Lemma dec_aux_litch fuel : forall n acc, forallb litch acc = true -> forallb litch (dec_aux fuel n acc) = true.
Proof.
  induction fuel as [|f IH]; intros n acc H; [exact H|]. cbn [dec_aux].
  assert (Hd : litch (48 + n mod 10) = true).
  { pose proof (N.mod_upper_bound n 10 ltac:(discriminate)) as Hm. set (m := n mod 10) in *. clearbody m. unfold litch.
    apply orb_true_iff. left. apply orb_true_iff. left. apply andb_true_iff. split; [apply N.leb_le | apply N.leb_le]; lia. }
  destruct (n / 10 =? 0).
  - cbn [forallb]. rewrite Hd, H. reflexivity.
  - apply IH. cbn [forallb]. rewrite Hd, H. reflexivity.
Qed.
Lemma lit_litch l : lit_ok l = true -> forallb litch (lit_display l) = true.
Proof.
  destruct l as [s|z|n|d|b]; cbn [lit_ok lit_display]; intros H; try discriminate.
  - destruct (z <? 0)%Z; [|discriminate]. cbn [forallb]. unfold dec. rewrite dec_aux_litch by reflexivity. reflexivity.
  - unfold dec. apply dec_aux_litch. reflexivity.
  - destruct b; reflexivity.
Qed.
Lemma litch_no_char c s : litch c = false -> forallb litch s = true -> no_char c s.
Proof. intros Hc H. eapply forallb_no_char; [exact H | exact Hc]. Qed.

Lemma argtoks_wf ka : arg_wfb idc ka = true -> Scan.items_wf (argtoks ka) /\ Forall top_ok (argtoks ka).
Proof.
  intros H. destruct (arg_wf_parts idc ka H) as (Hn & Hv). pose proof (key_no_lt _ Hn) as Hk.
  unfold argtoks. destruct (snd ka) as [its|l]; cbn [rarg_wfb] in Hv.
  - apply andb_true_iff in Hv as [Hi _]. destruct (aconvs_wf its Hi) as [W T].
    assert (Ho : no_char c_lt (key_open (fst ka))).
    { unfold key_open. apply no_char_cons; [intro E; vm_compute in E; discriminate|]. apply no_char_app; [exact Hk|].
      repeat (apply no_char_cons; [intro E; vm_compute in E; discriminate|]). apply no_char_nil. }
    split.
    + cbn [Scan.items_wf]. split; [exact Ho|]. apply items_wf_app; [exact W|]. cbn. split; [|exact I].
      apply no_char_cons; [intro E; vm_compute in E; discriminate | apply no_char_nil].
    + constructor; [exact I|]. apply Forall_app. split; [exact T | repeat constructor].
  - apply text_tok_wf. unfold member_text. cbn [fst snd].
    apply no_char_cons; [intro E; vm_compute in E; discriminate|]. apply no_char_app; [exact Hk|].
    repeat (apply no_char_cons; [intro E; vm_compute in E; discriminate|]).
    apply litch_no_char; [reflexivity | apply lit_litch; exact Hv].
Qed.
Lemma memtoks_wf args : forallb (arg_wfb idc) args = true -> Scan.items_wf (memtoks args) /\ Forall top_ok (memtoks args).
Proof.
  induction args as [|ka r IH]; intros H; [split; [exact I | constructor]|].
  cbn [forallb] in H. apply andb_true_iff in H as [Ha Hr]. destruct (argtoks_wf ka Ha) as [W T]. destruct (IH Hr) as [Wr Tr].
  destruct r as [|kb r']; [cbn [memtoks]; split; assumption|].
  set (r := kb :: r') in *. change (memtoks (ka :: r)) with (argtoks ka ++ IText [c_comma; 32] :: memtoks r). split.
  - apply items_wf_app; [exact W|]. cbn [Scan.items_wf]. split; [|exact Wr].
    repeat (apply no_char_cons; [intro E; vm_compute in E; discriminate|]). apply no_char_nil.
  - apply Forall_app. split; [exact T|]. constructor; [exact I | exact Tr].
Qed.
Lemma refatoks_wf ns path args : kp_wf idc ns path = true -> args_wfb idc args = true ->
  Scan.items_wf (refatoks ns path args) /\ Forall top_ok (refatoks ns path args).
Proof.
  intros Hk Ha. destruct (args_wf_parts idc args Ha) as (_ & _ & Hall). destruct (memtoks_wf args Hall) as [W T].
  unfold refatoks. split.
  - cbn [Scan.items_wf]. split.
    + unfold refa_open, s_fk. cbn [app]. do 3 (apply no_char_cons; [intro E; vm_compute in E; discriminate|]).
      apply no_char_app; [apply (keypath_no_char idc); try reflexivity; try (intro E; vm_compute in E; discriminate); exact Hk|].
      repeat (apply no_char_cons; [intro E; vm_compute in E; discriminate|]). apply no_char_nil.
    + apply items_wf_app; [exact W|]. cbn. split; [|exact I].
      repeat (apply no_char_cons; [intro E; vm_compute in E; discriminate|]). apply no_char_nil.
  - constructor; [exact I|]. apply Forall_app. split; [exact T | repeat constructor].
Qed.

Lemma rconv_wf : forall i, ritem_wfb i = true -> Scan.items_wf (rconv i) /\ Forall top_ok (rconv i).
Proof.
  apply (ritem_ind2 (fun i => ritem_wfb i = true -> Scan.items_wf (rconv i) /\ Forall top_ok (rconv i))).
  - intros s H. apply text_tok_wf. cbn [RoundTripRef1.ritem_wfb] in H. eapply forallb_no_char; [exact H | reflexivity].
  - intros w1 n w2 fm H. apply text_tok_wf. apply (rnoncomp_no_lt idc); [exact H | reflexivity].
  - intros w1 n w2 kids a b c IH H. cbn [RoundTripRef1.ritem_wfb] in H. repeat (apply andb_true_iff in H as [H ?]).
    cbn [rconv]. split; [|repeat constructor; cbn [top_ok]; assumption].
    cbn [Scan.items_wf]. split; [|exact I]. apply item_wf_comp.
    refine (conj _ (conj _ (conj _ (conj _ (conj _ (conj _ _)))))); try (apply wsb_all_ws; assumption).
    + eapply name_ok_of_wf; eassumption.
    + match goal with Hk : forallb (RoundTripRef1.ritem_wfb idc) kids = true |- _ => rename Hk into Hkids end.
      clear -IH Hkids. induction IH as [|k r Hk Hr IHr]; [exact I|].
      cbn [forallb] in Hkids. apply andb_true_iff in Hkids as [H1 H2]. cbn [flat_map].
      apply items_wf_app; [apply Hk; exact H1 | apply IHr; exact H2].
  - intros ns path H. apply text_tok_wf. apply (rnoncomp_no_lt idc); [exact H | reflexivity].
  - intros ns path args H. cbn [RoundTripRef1.ritem_wfb] in H. apply andb_true_iff in H as [H1 H2]. apply refatoks_wf; assumption.
Qed.
Lemma rconvs_wf l : ritems_wfb l = true -> Scan.items_wf (rconvs l) /\ Forall top_ok (rconvs l).
Proof.
  induction l as [|i r IH]; intros H; [split; [exact I | constructor]|].
  unfold RoundTripRef1.ritems_wfb in H. cbn [forallb] in H. apply andb_true_iff in H as [Hi Hr].
  destruct (rconv_wf i Hi) as [W T]. destruct (IH Hr) as [Wr Tr]. unfold rconvs in *. cbn [flat_map].
  split; [apply items_wf_app; assumption | apply Forall_app; split; assumption].
Qed.
Lemma ritems_wf_conv l : ritems_wfb l = true -> Scan.items_wf (rconvs l).
Proof. intros H. apply rconvs_wf. exact H. Qed.

(** * the component finder, at the level of strings and token trees:
    pre ++ <n> kids </n> ++ rest, where [pre] is ANY text without '<' (generalises
    find_valid_component_printed: the prefix, the children and the siblings may hold references) *)
Lemma find_valid_component_scan pre w1 n w2 kids a b c rest fuel :
  no_char c_lt pre -> all_ws w1 -> all_ws w2 -> all_ws a -> all_ws b -> all_ws c -> name_wf s_comp_ n = true ->
  Scan.items_wf kids -> Scan.items_wf rest ->
  find_valid_component idc true (S fuel)
    (pre ++ (open_tag w1 n w2 ++ flats (toks_list kids) ++ close_tag a b n c) ++ flats (toks_list rest)) 0
  = Ok (Some (s_comp_ ++ n, pre, flats (toks_list kids), flats (toks_list rest))).
Proof.
  intros Hpre Hw1 Hw2 Ha Hb Hcw Hname Hkids Hrest.
  pose proof (name_ok_of_wf idc _ _ Hname) as Hnok.
  set (K := flats (toks_list kids)). set (R := flats (toks_list rest)).
  set (after := K ++ close_tag a b n c ++ R).
  assert (Ev : pre ++ (open_tag w1 n w2 ++ K ++ close_tag a b n c) ++ R
               = pre ++ c_lt :: (w1 ++ n ++ w2) ++ c_gt :: after).
  { unfold after, open_tag. cbn [app]. rewrite <- !app_assoc. cbn [app]. reflexivity. }
  rewrite Ev. cbn [find_valid_component]. rewrite drop_bytes_0.
  assert (Eo : find_opening_tag (pre ++ c_lt :: (w1 ++ n ++ w2) ++ c_gt :: after)
               = Some (pre, n, after, (blen pre + blen (w1 ++ n ++ w2) + 2)%nat)).
  { unfold find_opening_tag. rewrite split_once_c_first by exact Hpre.
    rewrite split_once_c_first.
    - rewrite trim_name_padded by assumption. reflexivity.
    - repeat apply no_char_app; first [solve [apply no_char_ws; auto] | solve [apply no_char_name; auto]]. }
  rewrite Eo.
  assert (Ec : find_closing_tag idc true after n = Ok (Some (s_comp_ ++ n, K, R))).
  { unfold find_closing_tag.
    rewrite (key_new_wf idc s_comp_ n) by (try discriminate; try assumption; repeat constructor).
    cbn [bind].
    pose proof (closing_tag_found n kids rest a b c Hkids Hrest Ha Hb Hcw Hnok) as Hs.
    cbn zeta in Hs. fold K in Hs. fold R in Hs.
    change (flat (TClose a b c n)) with (close_tag a b n c) in Hs.
    unfold after. rewrite Hs.
    rewrite take_bytes_app.
    replace (blen K + blen (close_tag a b n c))%nat with (blen (K ++ close_tag a b n c)) by apply blen_app.
    rewrite app_assoc. rewrite drop_bytes_app. reflexivity. }
  rewrite Ec. cbn [bind]. cbn [Nat.add]. rewrite take_bytes_app. reflexivity.
Qed.

(** ... instantiated on printed sources with references: [pre] holds no top-level component *)
Lemma find_valid_component_rprinted pre w1 n w2 kids a b c rest fuel :
  ritems_wfb pre = true -> forallb is_tvr pre = true ->
  ritem_wfb (RComp w1 n w2 kids a b c) = true -> ritems_wfb rest = true ->
  find_valid_component idc true (S fuel) (rprint_list (pre ++ RComp w1 n w2 kids a b c :: rest)) 0
  = Ok (Some (s_comp_ ++ n, rprint_list pre, rprint_list kids, rprint_list rest)).
Proof.
  intros Hpre Hnc Hc Hrest.
  cbn [RoundTripRef1.ritem_wfb] in Hc. repeat (apply andb_true_iff in Hc as [Hc ?]).
  rewrite rprint_list_app, rprint_list_cons, rprint_comp.
  rewrite <- (flats_rconv_items kids), <- (flats_rconv_items rest).
  apply find_valid_component_scan; try (apply wsb_all_ws; assumption); try assumption.
  - apply (rnoncomps_no_lt idc); assumption.
  - apply ritems_wf_conv. assumption.
  - apply ritems_wf_conv. assumption.
Qed.

Lemma find_component_rprinted (new : str -> res pv) pre w1 n w2 kids a b c rest :
  ritems_wfb pre = true -> forallb is_tvr pre = true ->
  ritem_wfb (RComp w1 n w2 kids a b c) = true -> ritems_wfb rest = true ->
  find_component idc true new (rprint_list (pre ++ RComp w1 n w2 kids a b c :: rest))
  = bind (new (rprint_list pre)) (fun vb => bind (new (rprint_list kids)) (fun vm => bind (new (rprint_list rest)) (fun va =>
      Ok (Some (PBloc [vb; PComp (s_comp_ ++ n) vm; va]))))).
Proof.
  intros Hpre Hnc Hc Hrest. unfold find_component.
  rewrite (find_valid_component_rprinted pre w1 n w2 kids a b c rest _ Hpre Hnc Hc Hrest). reflexivity.
Qed.

(** no component at all: the finder returns None *)
Lemma find_valid_component_none s fuel : no_char c_lt s -> find_valid_component idc true (S fuel) s 0 = Ok None.
Proof.
  intros H. cbn [find_valid_component]. rewrite drop_bytes_0. unfold find_opening_tag.
  rewrite split_once_c_none by exact H. reflexivity.
Qed.

(** the finder on any run of tokens after a prefix without '<': nothing, or a component that opens
    at or after the end of the prefix *)
Lemma fvc_tokens : forall (L : list Scan.item) pre fuel,
  no_char c_lt pre -> Scan.items_wf L -> Forall top_ok L ->
  find_valid_component idc true (S fuel) (pre ++ flats (toks_list L)) 0 = Ok None \/
  exists k x b a, find_valid_component idc true (S fuel) (pre ++ flats (toks_list L)) 0 = Ok (Some (k, pre ++ x, b, a)).
Proof.
  induction L as [|it L IH]; intros pre fuel Hpre W T.
  - left. cbn [toks_list]. unfold flats. cbn [map concat]. rewrite app_nil_r. apply find_valid_component_none. exact Hpre.
  - cbn [Scan.items_wf] in W. destruct W as [Wi WL]. inversion T as [|? ? Ti TL]; subst.
    destruct it as [t|w1 w2 a b c n kids].
    + rewrite flats_cons_text, app_assoc. cbn [Scan.item_wf] in Wi.
      destruct (IH (pre ++ t) fuel (no_char_app _ _ _ Hpre Wi) WL TL) as [E|(k & x & bb & aa & E)].
      * left. exact E.
      * right. exists k, (t ++ x), bb, aa. rewrite E, <- app_assoc. reflexivity.
    + right. apply item_wf_comp in Wi. destruct Wi as (A1 & A2 & A3 & A4 & A5 & _ & Hk). cbn [top_ok] in Ti.
      change (IComp w1 w2 a b c n kids :: L) with ([IComp w1 w2 a b c n kids] ++ L).
      rewrite flats_toks_app. cbn [toks_list]. rewrite app_nil_r, flats_comp.
      rewrite (find_valid_component_scan pre w1 n w2 kids a b c L fuel Hpre A1 A2 A3 A4 A5 Ti Hk WL).
      exists (s_comp_ ++ n), [], (flats (toks_list kids)), (flats (toks_list L)). rewrite app_nil_r. reflexivity.
Qed.

(** * the foreign-key finder on  pre ++ $t(keypath) ++ rest  where [pre] holds no '$' *)
Lemma find_foreign_key_printed (new : str -> res pv) pre ns path rest :
  no_char c_dollar (rprint_list pre) -> ritem_wfb (RRef ns path) = true ->
  find_foreign_key idc json_args true new (rprint_list (pre ++ RRef ns path :: rest))
  = bind (new (rprint_list pre)) (fun vb => bind (new (rprint_list rest)) (fun va =>
      Ok (Some (PBloc [vb; PForeign (option_map seg_name ns) (map seg_name path) []; va])))).
Proof.
  intros Hpre Hwf.
  set (kp := keypath_text ns path).
  assert (Ev : rprint_list (pre ++ RRef ns path :: rest) = rprint_list pre ++ s_fk ++ (kp ++ c_rp :: rprint_list rest)).
  { rewrite rprint_list_app, rprint_list_cons. cbn [rprint]. unfold print_ref. fold kp.
    rewrite <- !app_assoc. reflexivity. }
  rewrite Ev. unfold find_foreign_key. change s_fk with (c_dollar :: [c_t; c_lp]).
  rewrite split_once_first_pat by exact Hpre.
  assert (Hkp : Forall (fun x => (x =? c_comma) || (x =? c_rp) = false) kp).
  { pose proof (keypath_no_char idc c_comma ns path Hwf eq_refl eq_refl) as H1.
    pose proof (keypath_no_char idc c_rp ns path Hwf eq_refl eq_refl) as H2.
    specialize (H1 ltac:(intro E; vm_compute in E; discriminate) ltac:(intro E; vm_compute in E; discriminate)).
    specialize (H2 ltac:(intro E; vm_compute in E; discriminate) ltac:(intro E; vm_compute in E; discriminate)).
    fold kp in H1, H2. unfold no_char in H1, H2. rewrite Forall_forall in H1, H2. apply Forall_forall. intros x Hx.
    apply orb_false_iff. split; apply N.eqb_neq; [apply H1 | apply H2]; exact Hx. }
  match goal with |- context [find_idx ?f ?s] =>
    replace (find_idx f s) with (Some (blen kp)) by (symmetry; apply find_idx_first; [exact Hkp | reflexivity]) end.
  rewrite take_bytes_app, drop_bytes_app.
  unfold kp. rewrite (parse_key_path_printed idc ns path Hwf). cbn [bind].
  change (c_rp =? c_comma) with false. cbn [bind].
  destruct (new (rprint_list pre)) as [vb| | | |]; cbn [bind]; try reflexivity.
Qed.

(** * references with arguments *)
(** ** the brace scan of parse_foreign_key_args on a printed argument object *)
Lemma brace_scan_nobrace t tail pos d : no_char c_lb t -> no_char c_rb t ->
  brace_scan (t ++ tail) pos d = brace_scan tail (pos + blen t)%nat d.
Proof.
  revert pos. induction t as [|c t IH]; intros pos Hl Hr.
  - cbn [app blen]. f_equal. lia.
  - inversion Hl; subst. inversion Hr; subst. cbn [app brace_scan blen].
    destruct (c =? c_lb) eqn:E1; [apply N.eqb_eq in E1; contradiction|].
    destruct (c =? c_rb) eqn:E2; [apply N.eqb_eq in E2; contradiction|].
    rewrite IH by assumption. f_equal. lia.
Qed.
Lemma brace_scan_var body tail pos d : no_char c_lb body -> no_char c_rb body ->
  brace_scan (c_lb :: c_lb :: body ++ c_rb :: c_rb :: tail) pos (S d) = brace_scan tail (pos + 4 + blen body)%nat (S d).
Proof.
  intros Hl Hr. cbn [brace_scan]. change (c_lb =? c_lb) with true. cbv iota.
  rewrite brace_scan_nobrace by assumption. cbn [brace_scan].
  change (c_rb =? c_lb) with false. change (c_rb =? c_rb) with true. cbv iota. cbn [Nat.eqb].
  change (len_utf8 c_lb) with 1%nat. change (len_utf8 c_rb) with 1%nat. f_equal. lia.
Qed.

Definition var_body (w1 n w2 : str) (fm : option (str * str * fmt)) : str :=
  w1 ++ n ++ w2 ++ (match fm with Some (t, w3, _) => c_comma :: t ++ w3 | None => [] end).
Lemma print_var_body w1 n w2 fm : print (SVar w1 n w2 fm) = c_lb :: c_lb :: var_body w1 n w2 fm ++ c_rb :: c_rb :: [].
Proof. cbn [print]. unfold s_open_var, s_close_var, var_body. cbn [app]. rewrite <- !app_assoc. reflexivity. Qed.
Lemma var_body_no_char c w1 n w2 fm : is_ws c = false -> namech c = false -> fmtch c = false -> c <> c_comma ->
  item_wfb idc (SVar w1 n w2 fm) = true -> no_char c (var_body w1 n w2 fm).
Proof.
  intros Hw Hn Hf Hc Hwf. cbn [item_wfb] in Hwf.
  apply andb_true_iff in Hwf as [Hwf Hfm]. apply andb_true_iff in Hwf as [Hwf Hname].
  apply andb_true_iff in Hwf as [Hw1 Hw2]. destruct (name_wf_parts idc _ _ Hname) as (_ & Hnc & _).
  unfold var_body.
  apply no_char_app; [eapply forallb_no_char; [exact Hw1 | exact Hw]|].
  apply no_char_app; [eapply forallb_no_char; [exact Hnc | exact Hn]|].
  apply no_char_app; [eapply forallb_no_char; [exact Hw2 | exact Hw]|].
  destruct fm as [[[t w3] f]|]; [|apply no_char_nil].
  unfold fmt_wf in Hfm. apply andb_true_iff in Hfm as [Hfm _]. apply andb_true_iff in Hfm as [Hfm _].
  apply andb_true_iff in Hfm as [Ht Hw3].
  apply no_char_cons; [intro E; apply Hc; symmetry; exact E|].
  apply no_char_app; [eapply forallb_no_char; [exact Ht | exact Hf] | eapply forallb_no_char; [exact Hw3 | exact Hw]].
Qed.

Lemma tag_nobrace w1 n w2 : wsb w1 = true -> wsb w2 = true -> name_wf s_comp_ n = true ->
  no_char c_lb (open_tag w1 n w2) /\ no_char c_rb (open_tag w1 n w2).
Proof.
  intros H1 H2 Hn. destruct (name_wf_parts idc _ _ Hn) as (_ & Hnc & _). unfold open_tag.
  split; (apply no_char_cons; [intro E; vm_compute in E; discriminate|]);
    (apply no_char_app; [eapply forallb_no_char; [exact H1 | reflexivity]|]);
    (apply no_char_app; [eapply forallb_no_char; [exact Hnc | reflexivity]|]);
    (apply no_char_app; [eapply forallb_no_char; [exact H2 | reflexivity]|]);
    (apply no_char_cons; [intro E; vm_compute in E; discriminate | apply no_char_nil]).
Qed.
Lemma ctag_nobrace a b n c : wsb a = true -> wsb b = true -> wsb c = true -> name_wf s_comp_ n = true ->
  no_char c_lb (close_tag a b n c) /\ no_char c_rb (close_tag a b n c).
Proof.
  intros H1 H2 H3 Hn. destruct (name_wf_parts idc _ _ Hn) as (_ & Hnc & _). unfold close_tag.
  split; (apply no_char_cons; [intro E; vm_compute in E; discriminate|]);
    (apply no_char_app; [eapply forallb_no_char; [exact H1 | reflexivity]|]);
    (apply no_char_cons; [intro E; vm_compute in E; discriminate|]);
    (apply no_char_app; [eapply forallb_no_char; [exact H2 | reflexivity]|]);
    (apply no_char_app; [eapply forallb_no_char; [exact Hnc | reflexivity]|]);
    (apply no_char_app; [eapply forallb_no_char; [exact H3 | reflexivity]|]);
    (apply no_char_cons; [intro E; vm_compute in E; discriminate | apply no_char_nil]).
Qed.

Lemma brace_scan_aitem : forall a, aitem_wfb idc a = true -> forall tail pos d,
  brace_scan (aprint a ++ tail) pos (S d) = brace_scan tail (pos + blen (aprint a))%nat (S d).
Proof.
  apply (aitem_ind2 (fun a => aitem_wfb idc a = true -> forall tail pos d,
    brace_scan (aprint a ++ tail) pos (S d) = brace_scan tail (pos + blen (aprint a))%nat (S d))).
  - intros s H tail pos d. cbn [aitem_wfb aprint] in *. apply andb_true_iff in H as [H1 H2]. apply brace_scan_nobrace.
    + eapply forallb_no_char; [exact H1 | reflexivity].
    + eapply forallb_no_char; [exact H2 | reflexivity].
  - intros w1 n w2 fm H tail pos d. cbn [aitem_wfb aprint] in *. rewrite print_var_body. cbn [app]. rewrite <- app_assoc. cbn [app].
    rewrite brace_scan_var by (apply var_body_no_char; try reflexivity; try (intro E; vm_compute in E; discriminate); exact H).
    f_equal. cbn [blen]. rewrite blen_app. cbn [blen]. change (len_utf8 c_lb) with 1%nat. change (len_utf8 c_rb) with 1%nat. lia.
  - intros w1 n w2 kids a b c IH H tail pos d. cbn [aitem_wfb] in H. repeat (apply andb_true_iff in H as [H ?]).
    destruct (tag_nobrace w1 n w2) as [Ol Or]; try assumption.
    destruct (ctag_nobrace a b n c) as [Cl Cr]; try assumption.
    cbn [aprint]. rewrite <- !app_assoc. rewrite brace_scan_nobrace by assumption.
    match goal with Hk : forallb (aitem_wfb idc) kids = true |- _ => rename Hk into Hkids end.
    assert (Hk : forall tl p, brace_scan (concat (map aprint kids) ++ tl) p (S d)
                               = brace_scan tl (p + blen (concat (map aprint kids)))%nat (S d)).
    { clear -IH Hkids. induction IH as [|k r Hk Hr IHr]; intros tl p.
      - cbn. f_equal. lia.
      - cbn [forallb] in Hkids. apply andb_true_iff in Hkids as [H1 H2]. cbn [map concat]. rewrite <- app_assoc.
        rewrite (Hk H1). rewrite (IHr H2). f_equal. rewrite blen_app. lia. }
    rewrite Hk. rewrite brace_scan_nobrace by assumption. f_equal. rewrite !blen_app. lia.
  - intros ns path H tail pos d. cbn [aitem_wfb aprint] in *.
    apply brace_scan_nobrace; apply (ref_no_char idc); try reflexivity; try (intro E; vm_compute in E; discriminate); exact H.
Qed.
Lemma brace_scan_aitems l tail pos d : forallb (aitem_wfb idc) l = true ->
  brace_scan (aprint_list l ++ tail) pos (S d) = brace_scan tail (pos + blen (aprint_list l))%nat (S d).
Proof.
  revert pos. induction l as [|a r IH]; intros pos H.
  - cbn. f_equal. lia.
  - cbn [forallb] in H. apply andb_true_iff in H as [Ha Hr]. unfold aprint_list. cbn [map concat]. fold (aprint_list r).
    rewrite <- app_assoc. rewrite brace_scan_aitem by exact Ha. rewrite IH by exact Hr. f_equal. rewrite blen_app. lia.
Qed.

Lemma key_nobrace k : name_wf s_var_ k = true -> no_char c_lb k /\ no_char c_rb k.
Proof.
  intros H. destruct (name_wf_parts idc _ _ H) as (_ & Hnc & _). split; eapply forallb_no_char; try exact Hnc; reflexivity.
Qed.

Lemma brace_scan_member ka tail pos d : arg_wfb idc ka = true ->
  brace_scan (member_text (fst ka, value_text (snd ka)) ++ tail) pos (S d)
  = brace_scan tail (pos + blen (member_text (fst ka, value_text (snd ka))))%nat (S d).
Proof.
  intros H. destruct (arg_wf_parts idc ka H) as (Hn & Hv). destruct (key_nobrace _ Hn) as [Kl Kr].
  destruct ka as [k a]. cbn [fst snd] in *. destruct a as [its|l]; cbn [rarg_wfb value_text] in *.
  - apply andb_true_iff in Hv as [Hi _].
    assert (E : member_text (k, c_quote :: aprint_list its ++ [c_quote]) = key_open k ++ aprint_list its ++ [c_quote]).
    { unfold member_text, key_open. cbn [fst snd app]. rewrite <- !app_assoc. reflexivity. }
    assert (Pl : no_char c_lb (key_open k) /\ no_char c_rb (key_open k)).
    { unfold key_open. split; (apply no_char_cons; [intro X; vm_compute in X; discriminate|]); (apply no_char_app; [assumption|]);
        repeat (apply no_char_cons; [intro X; vm_compute in X; discriminate|]); apply no_char_nil. }
    destruct Pl as [Pl Pr].
    match goal with |- brace_scan (?m ++ _) _ _ = brace_scan _ (_ + blen ?m')%nat _ =>
      replace m with (key_open k ++ aprint_list its ++ [c_quote]) by (symmetry; exact E);
      replace m' with (key_open k ++ aprint_list its ++ [c_quote]) by (symmetry; exact E) end.
    rewrite <- !app_assoc. rewrite brace_scan_nobrace by assumption. rewrite brace_scan_aitems by exact Hi.
    rewrite brace_scan_nobrace by (apply no_char_cons; [intro X; vm_compute in X; discriminate | apply no_char_nil]).
    f_equal. rewrite !blen_app. lia.
  - apply brace_scan_nobrace; unfold member_text; cbn [fst snd];
      (apply no_char_cons; [intro X; vm_compute in X; discriminate|]); (apply no_char_app; [assumption|]);
      repeat (apply no_char_cons; [intro X; vm_compute in X; discriminate|]);
      (apply litch_no_char; [reflexivity | apply lit_litch; exact Hv]).
Qed.
Lemma brace_scan_members args tail pos d : forallb (arg_wfb idc) args = true ->
  brace_scan (members_text (args_text args) ++ tail) pos (S d)
  = brace_scan tail (pos + blen (members_text (args_text args)))%nat (S d).
Proof.
  revert pos. induction args as [|ka r IH]; intros pos H.
  - cbn. f_equal. lia.
  - cbn [forallb] in H. apply andb_true_iff in H as [Ha Hr]. destruct r as [|kb r'].
    + cbn [args_text map members_text]. apply brace_scan_member. exact Ha.
    + set (r := kb :: r') in *.
      change (args_text (ka :: r)) with ((fst ka, value_text (snd ka)) :: args_text r).
      rewrite members_text_cons2 by (unfold r; cbn; discriminate).
      rewrite <- app_assoc. rewrite brace_scan_member by exact Ha.
      cbn [app]. change (c_comma :: 32 :: members_text (args_text r) ++ tail) with ([c_comma; 32] ++ members_text (args_text r) ++ tail).
      rewrite brace_scan_nobrace by (repeat (apply no_char_cons; [intro X; vm_compute in X; discriminate|]); apply no_char_nil).
      rewrite IH by exact Hr. f_equal. rewrite !blen_app. cbn [blen]. lia.
Qed.

Lemma brace_scan_obj args tail : forallb (arg_wfb idc) args = true ->
  brace_scan (32 :: obj_text (args_text args) ++ tail) 0 0 = Ok (Some (2 + blen (members_text (args_text args)))%nat).
Proof.
  intros H. unfold obj_text. cbn [app brace_scan]. change (32 =? c_lb) with false. change (32 =? c_rb) with false.
  change (c_lb =? c_lb) with true. cbv iota. rewrite <- app_assoc. rewrite brace_scan_members by exact H.
  cbn [app brace_scan]. change (c_rb =? c_lb) with false. change (c_rb =? c_rb) with true. cbv iota. cbn [Nat.eqb].
  change (len_utf8 32) with 1%nat. change (len_utf8 c_lb) with 1%nat. do 2 f_equal.
Qed.

(** ** the argument map *)
Definition on_snd {A B} (f : A -> B) (kv : str * A) : str * B := (fst kv, f (snd kv)).
Lemma map_insert_map {A B} (f : A -> B) k v m :
  map (on_snd f) (map_insert k v m) = map_insert k (f v) (map (on_snd f) m).
Proof.
  induction m as [|[k' v'] t IH]; [reflexivity|]. cbn [map_insert map on_snd fst snd].
  destruct (str_eqb k k'); [reflexivity|]. destruct (str_ltb k k'); [reflexivity|].
  cbn [map on_snd fst snd]. rewrite IH. reflexivity.
Qed.
Lemma sorted1_map {A B} (f : A -> B) l : map (on_snd f) (sorted1 l) = sorted1 (map (on_snd f) l).
Proof.
  unfold sorted1. change (@nil (str * B)) with (map (on_snd f) (@nil (str * A))). generalize (@nil (str * A)) as acc.
  induction l as [|kv r IH]; intros acc; [reflexivity|].
  cbn [map fold_left]. rewrite IH. f_equal. rewrite map_insert_map. reflexivity.
Qed.
Lemma fold_prefixed_map {A B} (g : A -> B) (l : list (str * A)) m0 :
  fold_left (fun m kv => map_insert (s_var_ ++ fst kv) (g (snd kv)) m) l m0
  = fold_left (fun m kv => map_insert (s_var_ ++ fst kv) (snd kv) m) (map (on_snd g) l) m0.
Proof. revert m0. induction l as [|kv r IH]; intros m0; [reflexivity|]. cbn [map fold_left on_snd fst snd]. apply IH. Qed.
Lemma fold_prefixed_mapf {A B} (f : A -> B) (l : list (str * A)) acc :
  map (on_snd f) (fold_left (fun m kv => map_insert (s_var_ ++ fst kv) (snd kv) m) l acc)
  = fold_left (fun m kv => map_insert (s_var_ ++ fst kv) (snd kv) m) (map (on_snd f) l) (map (on_snd f) acc).
Proof.
  revert acc. induction l as [|kv r IH]; intros acc; [reflexivity|].
  cbn [map fold_left]. rewrite IH. f_equal. rewrite map_insert_map. reflexivity.
Qed.
Lemma sorted2_map {A B} (f : A -> B) l : map (on_snd f) (sorted2 l) = sorted2 (map (on_snd f) l).
Proof. unfold sorted2. rewrite fold_prefixed_mapf, sorted1_map. reflexivity. Qed.

Lemma in_map_insert {V} (x : str * V) k v m : In x (map_insert k v m) -> x = (k, v) \/ In x m.
Proof.
  induction m as [|[k' v'] t IH]; cbn [map_insert]; intros H.
  - destruct H as [H|[]]. left. symmetry. exact H.
  - destruct (str_eqb k k').
    + destruct H as [H|H]; [left; symmetry; exact H | right; right; exact H].
    + destruct (str_ltb k k').
      * destruct H as [H|H]; [left; symmetry; exact H | right; exact H].
      * destruct H as [H|H]; [right; left; exact H|]. destruct (IH H) as [E|E]; [left; exact E | right; right; exact E].
Qed.
Lemma in_sorted1 {V} (x : str * V) l : In x (sorted1 l) -> In x l.
Proof.
  unfold sorted1. assert (G : forall acc, In x (fold_left (fun m kv => map_insert (fst kv) (snd kv) m) l acc) -> In x l \/ In x acc).
  { induction l as [|kv r IH]; intros acc H; [right; exact H|]. cbn [fold_left] in H.
    destruct (IH _ H) as [E|E]; [left; right; exact E|]. apply in_map_insert in E as [E|E]; [|right; exact E].
    left. left. destruct kv; cbn [fst snd] in E. symmetry. exact E. }
  intros H. destruct (G [] H) as [E|[]]. exact E.
Qed.

Definition vnew (new : str -> res pv) (s : str) : pv := match new s with Ok v => v | _ => PLit (LStr []) end.
Definition jval (new : str -> res pv) (a : jarg) : pv := match a with JString s => vnew new s | JLit l => PLit l end.

Lemma args_fold new (l : list (str * jarg)) m :
  (forall k a, In (k, a) l -> trim k = k /\ forall s, a = JString s -> exists v, new s = Ok v) ->
  fold_left (fun acc '(k, a) =>
      bind acc (fun m => bind (match a with JString s => new s | JLit l => Ok (PLit l) end) (fun v =>
      Ok (map_insert (s_var_ ++ trim k) v m)))) l (Ok m)
  = Ok (fold_left (fun m kv => map_insert (s_var_ ++ fst kv) (jval new (snd kv)) m) l m).
Proof.
  revert m. induction l as [|[k a] r IH]; intros m H; [reflexivity|].
  cbn [fold_left]. destruct (H k a (or_introl eq_refl)) as (Et & Hs). cbn [bind]. rewrite Et.
  destruct a as [s|l].
  - destruct (Hs s eq_refl) as (v & Ev). rewrite Ev. cbn [bind].
    rewrite IH by (intros k' a' Hi; apply H; right; exact Hi).
    cbn [fst snd jval]. unfold vnew. rewrite Ev. reflexivity.
  - cbn [bind]. rewrite IH by (intros k' a' Hi; apply H; right; exact Hi). reflexivity.
Qed.

(** the JSON oracle reads a printed argument object as the key-sorted map of its values *)
Definition jarg_of (a : rarg) : jarg := match a with RAStr its => JString (aprint_list its) | RALit l => JLit l end.
Definition json_ok : Prop := forall args, args_wfb idc args = true ->
  json_args (32 :: obj_text (args_text args)) = Ok (sorted1 (map (on_snd jarg_of) args)).

Lemma trim_key k : name_wf s_var_ k = true -> trim k = k.
Proof.
  intros H. pose proof (trim_name_padded [] k [] (Forall_nil _) (Forall_nil _) (name_ok_of_wf idc _ _ H)) as T.
  cbn [app] in T. rewrite app_nil_r in T. exact T.
Qed.

Definition aval (new : str -> res pv) (a : rarg) : pv :=
  match a with RAStr its => vnew new (aprint_list its) | RALit l => PLit l end.
Definition pargs_of (new : str -> res pv) (args : list (str * rarg)) : list (str * pv) :=
  sorted2 (map (on_snd (aval new)) args).

Lemma args_inner_printed (new : str -> res pv) args : json_ok -> args_wfb idc args = true ->
  (forall k its, In (k, RAStr its) args -> exists v, new (aprint_list its) = Ok v) ->
  args_inner json_args new (32 :: obj_text (args_text args)) = Ok (pargs_of new args).
Proof.
  intros Hj Hwf Hnew. unfold args_inner. rewrite (Hj args Hwf).
  destruct (args_wf_parts idc args Hwf) as (_ & _ & Hall).
  rewrite args_fold.
  - f_equal. unfold pargs_of, sorted2. rewrite fold_prefixed_map. rewrite sorted1_map. f_equal. f_equal.
    rewrite map_map. apply map_ext. intros [k a]. unfold on_snd. cbn [fst snd]. destruct a; reflexivity.
  - intros k a Hi. apply in_sorted1 in Hi. apply in_map_iff in Hi as ([k' a'] & E & Hi). unfold on_snd in E. cbn [fst snd] in E.
    inversion E; subst. rewrite forallb_forall in Hall. destruct (arg_wf_parts idc _ (Hall _ Hi)) as (Hn & _). cbn [fst] in Hn.
    split; [apply trim_key; exact Hn|]. intros s Es. destruct a' as [its|l]; cbn [jarg_of] in Es; [|discriminate].
    inversion Es; subst. apply (Hnew k its). exact Hi.
Qed.

Lemma fk_args_printed (new : str -> res pv) args rest : json_ok -> args_wfb idc args = true ->
  (forall k its, In (k, RAStr its) args -> exists v, new (aprint_list its) = Ok v) ->
  fk_args json_args true new (32 :: obj_text (args_text args) ++ c_rp :: rest) = Ok (pargs_of new args, rest).
Proof.
  intros Hj Hwf Hnew. destruct (args_wf_parts idc args Hwf) as (_ & _ & Hall).
  unfold fk_args. rewrite brace_scan_obj by exact Hall. cbn [bind].
  set (M := members_text (args_text args)).
  assert (Eb : (2 + blen M + 1)%nat = blen (32 :: obj_text (args_text args))).
  { unfold obj_text. fold M. cbn [blen]. rewrite blen_app. cbn [blen]. change (len_utf8 32) with 1%nat.
    change (len_utf8 c_lb) with 1%nat. change (len_utf8 c_rb) with 1%nat. lia. }
  rewrite Eb. change (32 :: obj_text (args_text args) ++ c_rp :: rest) with ((32 :: obj_text (args_text args)) ++ c_rp :: rest).
  rewrite take_bytes_app, drop_bytes_app.
  assert (Et : trim_start (c_rp :: rest) = c_rp :: rest) by (apply trim_start_nonws; reflexivity).
  rewrite Et. cbn [strip_prefix]. rewrite N.eqb_refl.
  rewrite (args_inner_printed new args Hj Hwf Hnew). reflexivity.
Qed.

Lemma rprint_refa_split pre ns path args rest :
  rprint_list (pre ++ RRefA ns path args :: rest)
  = rprint_list pre ++ s_fk ++ (keypath_text ns path ++ c_comma :: (32 :: obj_text (args_text args) ++ c_rp :: rprint_list rest)).
Proof.
  rewrite rprint_list_app, rprint_list_cons. cbn [rprint]. unfold print_refa.
  rewrite <- !app_assoc. cbn [app]. rewrite <- !app_assoc. reflexivity.
Qed.

Lemma find_foreign_key_args_printed (new : str -> res pv) pre ns path args rest :
  json_ok -> no_char c_dollar (rprint_list pre) -> ritem_wfb (RRefA ns path args) = true ->
  (forall k its, In (k, RAStr its) args -> exists v, new (aprint_list its) = Ok v) ->
  find_foreign_key idc json_args true new (rprint_list (pre ++ RRefA ns path args :: rest))
  = bind (new (rprint_list pre)) (fun vb => bind (new (rprint_list rest)) (fun va =>
      Ok (Some (PBloc [vb; PForeign (option_map seg_name ns) (map seg_name path) (pargs_of new args); va])))).
Proof.
  intros Hj Hpre Hwf Hnew. cbn [RoundTripRef1.ritem_wfb] in Hwf. apply andb_true_iff in Hwf as [Hkp Hargs].
  set (kp := keypath_text ns path).
  rewrite rprint_refa_split. fold kp. unfold find_foreign_key. change s_fk with (c_dollar :: [c_t; c_lp]).
  rewrite split_once_first_pat by exact Hpre.
  assert (Hkpc : Forall (fun x => (x =? c_comma) || (x =? c_rp) = false) kp).
  { pose proof (keypath_no_char idc c_comma ns path Hkp eq_refl eq_refl) as H1.
    pose proof (keypath_no_char idc c_rp ns path Hkp eq_refl eq_refl) as H2.
    specialize (H1 ltac:(intro E; vm_compute in E; discriminate) ltac:(intro E; vm_compute in E; discriminate)).
    specialize (H2 ltac:(intro E; vm_compute in E; discriminate) ltac:(intro E; vm_compute in E; discriminate)).
    fold kp in H1, H2. unfold no_char in H1, H2. rewrite Forall_forall in H1, H2. apply Forall_forall. intros x Hx.
    apply orb_false_iff. split; apply N.eqb_neq; [apply H1 | apply H2]; exact Hx. }
  match goal with |- context [find_idx ?f ?s] =>
    replace (find_idx f s) with (Some (blen kp)) by (symmetry; apply find_idx_first; [exact Hkpc | reflexivity]) end.
  rewrite take_bytes_app, drop_bytes_app.
  unfold kp. rewrite (parse_key_path_printed idc ns path Hkp). cbn [bind].
  change (c_comma =? c_comma) with true. cbv iota.
  rewrite (fk_args_printed new args (rprint_list rest) Hj Hargs Hnew). cbn [bind].
  destruct (new (rprint_list pre)) as [vb| | | |]; cbn [bind]; try reflexivity.
Qed.
End RT.
