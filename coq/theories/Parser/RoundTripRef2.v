(** Round trip for sources containing references, part 2: the component finder generalised to the
    token trees of Scan.v (any prefix without '<'), and the finders on printed sources with references. *)
From Coq Require Import List NArith ZArith Bool Arith Lia.
Import ListNotations.
From LI Require Import Base.StrOps Base.StrLemmas Parser.Parse Parser.Reduce Parser.Source Parser.Scan
  Parser.RoundTrip1 Parser.RoundTrip2 Parser.RoundTrip3 Parser.RoundTrip4 Parser.ReduceProofs Parser.RoundTripRef1.
Open Scope N_scope.
Local Notation item := Source.item.
Ltac slia := unfold str, char in *; lia.

(** * source items with references as the token trees of Scan.v (a printed reference is text without '<') *)
Fixpoint rconv (i : ritem) : Scan.item :=
  match i with
  | RText s => IText s
  | RVar w1 n w2 fm => IText (rprint (RVar w1 n w2 fm))
  | RComp w1 n w2 kids a b c => IComp w1 w2 a b c n (map rconv kids)
  | RRef ns path => IText (rprint (RRef ns path))
  end.

Lemma flats_rconv_list l : Forall (fun k => flats (toks (rconv k)) = rprint k) l ->
  flats (toks_list (map rconv l)) = rprint_list l.
Proof.
  induction 1 as [|k r Hk Hr IH]; [reflexivity|].
  cbn [map toks_list]. rewrite flats_app, Hk, IH. reflexivity.
Qed.
Lemma flats_rconv : forall i, flats (toks (rconv i)) = rprint i.
Proof.
  apply (ritem_ind2 (fun i => flats (toks (rconv i)) = rprint i)).
  - intros s. cbn. apply app_nil_r.
  - intros w1 n w2 fm. cbn [rconv toks]. unfold flats. cbn [map concat flat]. apply app_nil_r.
  - intros w1 n w2 kids a b c IH. cbn [rconv]. rewrite toks_comp.
    change (TOpen w1 w2 n :: toks_list (map rconv kids) ++ [TClose a b c n])
      with ([TOpen w1 w2 n] ++ toks_list (map rconv kids) ++ [TClose a b c n]).
    rewrite !flats_app. rewrite (flats_rconv_list kids IH).
    unfold flats. cbn [map concat flat]. rewrite !app_nil_r. rewrite rprint_comp. reflexivity.
  - intros ns path. cbn [rconv toks]. unfold flats. cbn [map concat flat]. apply app_nil_r.
Qed.
Lemma flats_rconv_items l : flats (toks_list (map rconv l)) = rprint_list l.
Proof. apply flats_rconv_list. apply Forall_forall. intros k _. apply flats_rconv. Qed.

Section RT.
Variable idc : str -> idres.
Variable json_args : str -> res (list (str * jarg)).
Notation ritem_wfb := (ritem_wfb idc).
Notation ritems_wfb := (ritems_wfb idc).
Notation name_wf := (name_wf idc).

Lemma ritems_wf_conv_list l : Forall (fun k => ritem_wfb k = true -> Scan.item_wf (rconv k)) l ->
  ritems_wfb l = true -> Scan.items_wf (map rconv l).
Proof.
  induction 1 as [|k r Hk Hr IH]; intros H; [exact I|].
  unfold RoundTripRef1.ritems_wfb in H. cbn [forallb] in H. apply andb_true_iff in H as [H1 H2].
  cbn [map Scan.items_wf]. split; [apply Hk; exact H1 | apply IH; exact H2].
Qed.
Lemma ritem_wf_conv : forall i, ritem_wfb i = true -> Scan.item_wf (rconv i).
Proof.
  apply (ritem_ind2 (fun i => ritem_wfb i = true -> Scan.item_wf (rconv i))).
  - intros s H. cbn [rconv Scan.item_wf]. cbn [RoundTripRef1.ritem_wfb] in H. eapply forallb_no_char; [exact H | reflexivity].
  - intros w1 n w2 fm H. cbn [rconv Scan.item_wf]. apply (rnoncomp_no_lt idc); [exact H | reflexivity].
  - intros w1 n w2 kids a b c IH H. cbn [rconv]. apply item_wf_comp.
    cbn [RoundTripRef1.ritem_wfb] in H. repeat (apply andb_true_iff in H as [H ?]).
    refine (conj _ (conj _ (conj _ (conj _ (conj _ (conj _ _)))))); try (apply wsb_all_ws; assumption).
    + eapply name_ok_of_wf; eassumption.
    + apply (ritems_wf_conv_list kids IH). assumption.
  - intros ns path H. cbn [rconv Scan.item_wf]. apply (rnoncomp_no_lt idc); [exact H | reflexivity].
Qed.
Lemma ritems_wf_conv l : ritems_wfb l = true -> Scan.items_wf (map rconv l).
Proof. apply ritems_wf_conv_list. apply Forall_forall. intros k _. apply ritem_wf_conv. Qed.

(** * the component finder, at the level of strings and token trees:
    pre ++ <n> kids </n> ++ rest, where [pre] is ANY text without '<' (generalises
    find_valid_component_printed: the prefix, the children and the siblings may hold references) *)
Lemma find_valid_component_scan pre w1 n w2 kids a b c rest fuel :
  no_char c_lt pre -> all_ws w1 -> all_ws w2 -> all_ws a -> all_ws b -> all_ws c -> name_wf s_comp_ n = true ->
  Scan.items_wf kids -> Scan.items_wf rest ->
  find_valid_component idc true (S fuel)
    (pre ++ (open_tag w1 n w2 ++ flats (toks_list kids) ++ close_tag a b n c) ++ flats (toks_list rest)) 0
  = Ok (Some (s_comp_ ++ n, pre, flats (toks_list kids), flats (toks_list rest))).
Proof.
  intros Hpre Hw1 Hw2 Ha Hb Hcw Hname Hkids Hrest.
  pose proof (name_ok_of_wf idc _ _ Hname) as Hnok.
  set (K := flats (toks_list kids)). set (R := flats (toks_list rest)).
  set (after := K ++ close_tag a b n c ++ R).
  assert (Ev : pre ++ (open_tag w1 n w2 ++ K ++ close_tag a b n c) ++ R
               = pre ++ c_lt :: (w1 ++ n ++ w2) ++ c_gt :: after).
  { unfold after, open_tag. cbn [app]. rewrite <- !app_assoc. cbn [app]. reflexivity. }
  rewrite Ev. cbn [find_valid_component]. rewrite drop_bytes_0.
  assert (Eo : find_opening_tag (pre ++ c_lt :: (w1 ++ n ++ w2) ++ c_gt :: after)
               = Some (pre, n, after, (blen pre + blen (w1 ++ n ++ w2) + 2)%nat)).
  { unfold find_opening_tag. rewrite split_once_c_first by exact Hpre.
    rewrite split_once_c_first.
    - rewrite trim_name_padded by assumption. reflexivity.
    - repeat apply no_char_app; first [solve [apply no_char_ws; auto] | solve [apply no_char_name; auto]]. }
  rewrite Eo.
  assert (Ec : find_closing_tag idc true after n = Ok (Some (s_comp_ ++ n, K, R))).
  { unfold find_closing_tag.
    rewrite (key_new_wf idc s_comp_ n) by (try discriminate; try assumption; repeat constructor).
    cbn [bind].
    pose proof (closing_tag_found n kids rest a b c Hkids Hrest Ha Hb Hcw Hnok) as Hs.
    cbn zeta in Hs. fold K in Hs. fold R in Hs.
    change (flat (TClose a b c n)) with (close_tag a b n c) in Hs.
    unfold after. rewrite Hs.
    rewrite take_bytes_app.
    replace (blen K + blen (close_tag a b n c))%nat with (blen (K ++ close_tag a b n c)) by apply blen_app.
    rewrite app_assoc. rewrite drop_bytes_app. reflexivity. }
  rewrite Ec. cbn [bind]. cbn [Nat.add]. rewrite take_bytes_app. reflexivity.
Qed.

(** ... instantiated on printed sources with references: [pre] holds no top-level component *)
Lemma find_valid_component_rprinted pre w1 n w2 kids a b c rest fuel :
  ritems_wfb pre = true -> forallb (fun x => negb (is_rcomp x)) pre = true ->
  ritem_wfb (RComp w1 n w2 kids a b c) = true -> ritems_wfb rest = true ->
  find_valid_component idc true (S fuel) (rprint_list (pre ++ RComp w1 n w2 kids a b c :: rest)) 0
  = Ok (Some (s_comp_ ++ n, rprint_list pre, rprint_list kids, rprint_list rest)).
Proof.
  intros Hpre Hnc Hc Hrest.
  cbn [RoundTripRef1.ritem_wfb] in Hc. repeat (apply andb_true_iff in Hc as [Hc ?]).
  rewrite rprint_list_app, rprint_list_cons, rprint_comp.
  rewrite <- (flats_rconv_items kids), <- (flats_rconv_items rest).
  apply find_valid_component_scan; try (apply wsb_all_ws; assumption); try assumption.
  - apply (rnoncomps_no_lt idc); assumption.
  - apply ritems_wf_conv. assumption.
  - apply ritems_wf_conv. assumption.
Qed.

Lemma find_component_rprinted (new : str -> res pv) pre w1 n w2 kids a b c rest :
  ritems_wfb pre = true -> forallb (fun x => negb (is_rcomp x)) pre = true ->
  ritem_wfb (RComp w1 n w2 kids a b c) = true -> ritems_wfb rest = true ->
  find_component idc true new (rprint_list (pre ++ RComp w1 n w2 kids a b c :: rest))
  = bind (new (rprint_list pre)) (fun vb => bind (new (rprint_list kids)) (fun vm => bind (new (rprint_list rest)) (fun va =>
      Ok (Some (PBloc [vb; PComp (s_comp_ ++ n) vm; va]))))).
Proof.
  intros Hpre Hnc Hc Hrest. unfold find_component.
  rewrite (find_valid_component_rprinted pre w1 n w2 kids a b c rest _ Hpre Hnc Hc Hrest). reflexivity.
Qed.

(** no component at all: the finder returns None *)
Lemma find_valid_component_none s fuel : no_char c_lt s -> find_valid_component idc true (S fuel) s 0 = Ok None.
Proof.
  intros H. cbn [find_valid_component]. rewrite drop_bytes_0. unfold find_opening_tag.
  rewrite split_once_c_none by exact H. reflexivity.
Qed.

(** * the foreign-key finder on  pre ++ $t(keypath) ++ rest  where [pre] holds no '$' *)
Lemma find_foreign_key_printed (new : str -> res pv) pre ns path rest :
  no_char c_dollar (rprint_list pre) -> ritem_wfb (RRef ns path) = true ->
  find_foreign_key idc json_args true new (rprint_list (pre ++ RRef ns path :: rest))
  = bind (new (rprint_list pre)) (fun vb => bind (new (rprint_list rest)) (fun va =>
      Ok (Some (PBloc [vb; PForeign (option_map seg_name ns) (map seg_name path) []; va])))).
Proof.
  intros Hpre Hwf.
  set (kp := keypath_text ns path).
  assert (Ev : rprint_list (pre ++ RRef ns path :: rest) = rprint_list pre ++ s_fk ++ (kp ++ c_rp :: rprint_list rest)).
  { rewrite rprint_list_app, rprint_list_cons. cbn [rprint]. unfold print_ref. fold kp.
    rewrite <- !app_assoc. reflexivity. }
  rewrite Ev. unfold find_foreign_key. change s_fk with (c_dollar :: [c_t; c_lp]).
  rewrite split_once_first_pat by exact Hpre.
  assert (Hkp : Forall (fun x => (x =? c_comma) || (x =? c_rp) = false) kp).
  { pose proof (keypath_no_char idc c_comma ns path Hwf eq_refl eq_refl) as H1.
    pose proof (keypath_no_char idc c_rp ns path Hwf eq_refl eq_refl) as H2.
    specialize (H1 ltac:(intro E; vm_compute in E; discriminate) ltac:(intro E; vm_compute in E; discriminate)).
    specialize (H2 ltac:(intro E; vm_compute in E; discriminate) ltac:(intro E; vm_compute in E; discriminate)).
    fold kp in H1, H2. unfold no_char in H1, H2. rewrite Forall_forall in H1, H2. apply Forall_forall. intros x Hx.
    apply orb_false_iff. split; apply N.eqb_neq; [apply H1 | apply H2]; exact Hx. }
  match goal with |- context [find_idx ?f ?s] =>
    replace (find_idx f s) with (Some (blen kp)) by (symmetry; apply find_idx_first; [exact Hkp | reflexivity]) end.
  rewrite take_bytes_app, drop_bytes_app.
  unfold kp. rewrite (parse_key_path_printed idc ns path Hwf). cbn [bind].
  change (c_rp =? c_comma) with false. cbn [bind].
  destruct (new (rprint_list pre)) as [vb| | | |]; cbn [bind]; try reflexivity.
Qed.
End RT.
