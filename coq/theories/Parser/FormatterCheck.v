(** Executable correspondence predicate for C18 (parser level), evaluated on
    harness-generated case files (harness h_fmt, modes parse / direct). *)
From Coq Require Import List NArith Bool.
Import ListNotations.
From LI Require Import Base.StrOps Parser.Formatter.
Open Scope N_scope.

(** what the implementation printed *)
Inductive ires :=
| IRes (v : vres)     (* `V key fmt` / `E2 name` / `E4 fmt` *)
| IOther.             (* SHAPE, E1, E?, PANIC *)

Inductive src :=
| SrcText (var : ptok) (t : ftext)    (* grammar-derived: "{{" var "," render t "}}" with white space *)
| SrcRaw (fmt l r : str)              (* arbitrary text after "{{v,", run bare and padded with l / r *)
| SrcDirect (name : str) (args : args_t) (impl : sel). (* Formatter::from_name_and_args called directly *)

Record case := mk_case {
  c_src : src;
  c_sent : str;     (* text between the braces as it was sent to the implementation *)
  c_impl : ires;    (* ParsedValue::new on "{{" c_sent "}}" *)
  c_impl2 : ires }. (* SrcRaw only: the padded variant *)

Definition en := all_features.

Definition sel_eqb (a b : sel) : bool :=
  match a, b with
  | SelOk x, SelOk y => formatter_eqb x y
  | SelUnknown, SelUnknown => true
  | SelDisabled x, SelDisabled y => formatter_eqb x y
  | _, _ => false
  end.

Definition ires_eqb (a b : ires) : bool :=
  match a, b with
  | IRes x, IRes y => vres_eqb x y
  | IOther, IOther => true
  | _, _ => false
  end.

Definition inner_of (var : ptok) (t : ftext) : str := rtok var ++ c_comma :: render t.

Definition pres_of (v : vres) : pres :=
  match v with VVar _ f => POk f | VUnknown n => PUnknown n | VDisabled f => PDisabled f end.
Definition key_ok (var : str) (v : vres) : bool :=
  match v with VVar k _ => str_eqb k (var_prefix ++ var) | _ => true end.

Definition raw_prefix : str := [32; 118; 44].  (* " v," *)

(** 0 agree + spec; 1 outside the modelled domain; 2 implementation differs from the model, spec holds;
    3 spec false on the implementation's output; 4 the case file is inconsistent (generator error) *)
Definition check (c : case) : N :=
  match c_src c with
  | SrcText var t =>
      if negb (wf_tok var && wf_ftext t && lacks c_comma (tok var)
               && negb (str_eqb (tok var) []) && str_eqb (inner_of var t) (c_sent c)) then 4
      else match c_impl c with
           | IOther => 3
           | IRes v =>
               if negb (spec_C18 en t (pres_of v) && spec_C18_var en (tok var) t v) then 3
               else if negb (vres_eqb v (parse_variable en (c_sent c))) then 2 else 0
           end
  | SrcRaw fmt l r =>
      if negb (all_ws l && all_ws r && str_eqb (raw_prefix ++ fmt) (c_sent c)) then 4
      else if negb (ires_eqb (c_impl c) (c_impl2 c)) then 3    (* outer white space changed the result *)
      else match c_impl c with
           | IOther => 1
           | IRes v => if vres_eqb v (parse_variable en (c_sent c))
                          && vres_eqb v (parse_variable en (raw_prefix ++ l ++ fmt ++ r)) then 0 else 2
           end
  | SrcDirect name args impl =>
      if negb (sel_eqb impl (expected_sel en name args)) then 3
      else if negb (sel_eqb impl (from_name_and_args en name args)) then 2 else 0
  end.
