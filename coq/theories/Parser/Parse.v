(** Model of leptos_i18n_parser/src/parse_locales/parsed_value.rs: ParsedValue::new
    (properties C01, C06, C09).  Mirrors, in the code's order of attempts:
    find_foreign_key (parse_key_path, parse_foreign_key_args with its brace scan),
    find_component (find_valid_component with skip_sum, find_opening_tag,
    find_closing_tag with the depth counter and *last* depth-0 close, byte offsets),
    find_variable (parse_formatter_args, Formatter::from_name_and_args), Key::new.
    Strings are lists of code points; byte offsets are kept (len_utf8) and a slice at
    a non-boundary is an explicit [Panic].  No proofs in this file. *)
From Coq Require Import List NArith ZArith Bool Arith.
Import ListNotations.
From LI Require Import Base.StrOps.
Open Scope N_scope.

Inductive res (A : Type) : Type :=
| Ok (a : A) | Err (kind : N) | Panic (site : N) | OutOfFuel | Unmodelled.
Arguments Ok {A} a. Arguments Err {A} kind. Arguments Panic {A} site.
Arguments OutOfFuel {A}. Arguments Unmodelled {A}.

Definition bind {A B} (r : res A) (f : A -> res B) : res B :=
  match r with Ok a => f a | Err e => Err e | Panic p => Panic p | OutOfFuel => OutOfFuel | Unmodelled => Unmodelled end.

(** error kinds (Error enum of the parser) *)
Definition E_UnexpectedToken := 1. Definition E_UnknownFormatter := 2. Definition E_InvalidForeignKeyArgs := 3.
Definition E_DisabledFormatter := 4.
(** panic sites *)
Definition P_slice := 1. Definition P_split_at := 2.

(** formatters (leptos_i18n_parser/src/utils/formatter.rs); option enums as their declaration index *)
Inductive fmt :=
| FNone | FNumber (g : N) | FDate (d : N) | FTime (t : N) | FDateTime (d t : N)
| FList (ty st : N) | FCurrency (w : N) (code : str).

(** literals (Literal enum); floats carry their Rust [Display] text (oracle) *)
Inductive lit :=
| LStr (s : str) | LSigned (z : Z) | LUnsigned (n : N) | LFloat (display : str) | LBool (b : bool).

Inductive pv :=
| PLit (l : lit)
| PVar (key : str) (f : fmt)
| PComp (key : str) (inner : pv)
| PBloc (l : list pv)
| PForeign (ns : option str) (path : list str) (args : list (str * pv)).

(** a JSON argument as serde_json hands it to the parser: a string (parsed again) or another literal *)
Inductive jarg := JString (s : str) | JLit (l : lit).

(* ---------- ascii ---------- *)
Definition c_lt := 60. Definition c_gt := 62. Definition c_slash := 47. Definition c_lb := 123. Definition c_rb := 125.
Definition c_comma := 44. Definition c_rp := 41. Definition c_lp := 40. Definition c_colon := 58. Definition c_dot := 46.
Definition c_semi := 59. Definition c_dollar := 36. Definition c_t := 116. Definition c_minus := 45. Definition c_us := 95.
Definition s_open_var : str := [c_lb; c_lb]. Definition s_close_var : str := [c_rb; c_rb].
Definition s_fk : str := [c_dollar; c_t; c_lp].
Definition s_var_ : str := [118; 97; 114; 95]. Definition s_comp_ : str := [99; 111; 109; 112; 95].

(* ---------- identifiers: syn::parse_str::<syn::Ident> ---------- *)
Definition is_alpha (c : char) := ((65 <=? c) && (c <=? 90)) || ((97 <=? c) && (c <=? 122)) || (c =? c_us).
Definition is_alnum (c : char) := is_alpha c || ((48 <=? c) && (c <=? 57)).
Inductive idres := IdOk | IdBad | IdUnknown.
Definition keywords : list str := map (map (fun c => N.of_nat c)) [
 [95]; [97;98;115;116;114;97;99;116]; [97;115]; [97;115;121;110;99]; [97;119;97;105;116]; [98;101;99;111;109;101];
 [98;111;120]; [98;114;101;97;107]; [99;111;110;115;116]; [99;111;110;116;105;110;117;101]; [99;114;97;116;101];
 [100;111]; [100;121;110]; [101;108;115;101]; [101;110;117;109]; [101;120;116;101;114;110]; [102;97;108;115;101];
 [102;105;110;97;108]; [102;110]; [102;111;114]; [105;102]; [105;109;112;108]; [105;110]; [108;101;116]; [108;111;111;112];
 [109;97;99;114;111]; [109;97;116;99;104]; [109;111;100]; [109;111;118;101]; [109;117;116]; [111;118;101;114;114;105;100;101];
 [112;114;105;118]; [112;117;98]; [114;101;102]; [114;101;116;117;114;110]; [83;101;108;102]; [115;101;108;102];
 [115;116;97;116;105;99]; [115;116;114;117;99;116]; [115;117;112;101;114]; [116;114;97;105;116]; [116;114;117;101];
 [116;114;121]; [116;121;112;101]; [116;121;112;101;111;102]; [117;110;115;97;102;101]; [117;110;115;105;122;101;100];
 [117;115;101]; [118;105;114;116;117;97;108]; [119;104;101;114;101]; [119;104;105;108;101]; [121;105;101;108;100] ]%nat.

(** exact on ASCII input; non-ASCII (XID tables), and a few characters whose tokenisation
    by proc_macro2 is not mirrored, are [IdUnknown] *)
Definition ident_check (s : str) : idres :=
  if existsb (fun c => 128 <=? c) s then IdUnknown
  else if existsb (fun c => (c =? c_slash) || (c =? 35) || (c =? 39) || (c =? 34)) s then IdUnknown
  else match s with
       | [] => IdBad
       | c :: r => if is_alpha c && forallb is_alnum r
                   then (if existsb (str_eqb s) keywords then IdBad else IdOk)
                   else IdBad
       end.

(* ---------- formatter ---------- *)
Definition a2s (l : list N) : str := l.
(** from_args_helper: first argument named [name] whose value is recognised wins, else the default *)
Fixpoint first_recognised {T} (l : list (str * str)) (name : str) (f : str -> option T) (dflt : T) : T :=
  match l with
  | [] => dflt
  | (a, v) :: t => if str_eqb a name then match f v with Some x => x | None => first_recognised t name f dflt end
                   else first_recognised t name f dflt
  end.
Definition from_args {T} (args : option (list (str * str))) (name : str) (f : str -> option T) (dflt : T) : T :=
  match args with None => dflt | Some l => first_recognised l name f dflt end.
Definition table (vals : list (str * N)) (v : str) : option N :=
  match find (fun p => str_eqb (fst p) v) vals with Some p => Some (snd p) | None => None end.

Definition s_full := a2s [102;117;108;108]. Definition s_long := a2s [108;111;110;103].
Definition s_medium := a2s [109;101;100;105;117;109]. Definition s_short := a2s [115;104;111;114;116].
Definition s_narrow := a2s [110;97;114;114;111;119]. Definition s_wide := a2s [119;105;100;101].
Definition s_auto := a2s [97;117;116;111]. Definition s_never := a2s [110;101;118;101;114].
Definition s_always := a2s [97;108;119;97;121;115]. Definition s_min2 := a2s [109;105;110;50].
Definition s_and := a2s [97;110;100]. Definition s_or := a2s [111;114]. Definition s_unit := a2s [117;110;105;116].
Definition v_len := [(s_full, 0); (s_long, 1); (s_medium, 2); (s_short, 3)].
Definition v_width := [(s_short, 0); (s_narrow, 1)].
Definition v_grouping := [(s_auto, 0); (s_never, 1); (s_always, 2); (s_min2, 3)].
Definition v_list_type := [(s_and, 0); (s_or, 1); (s_unit, 2)].
Definition v_list_style := [(s_wide, 0); (s_short, 1); (s_narrow, 2)].
Definition n_date_length := a2s [100;97;116;101;95;108;101;110;103;116;104].
Definition n_time_length := a2s [116;105;109;101;95;108;101;110;103;116;104].
Definition n_width := a2s [119;105;100;116;104].
Definition n_currency_code := a2s [99;117;114;114;101;110;99;121;95;99;111;100;101].
Definition n_grouping := a2s [103;114;111;117;112;105;110;103;95;115;116;114;97;116;101;103;121].
Definition n_list_type := a2s [108;105;115;116;95;116;121;112;101].
Definition n_list_style := a2s [108;105;115;116;95;115;116;121;108;101].
Definition s_USD := a2s [85;83;68].
(** TinyAsciiStr::<3>::from_str: at most 3 bytes, ASCII, no NUL *)
Definition tiny3 (v : str) : option str :=
  if (length v <=? 3)%nat && forallb (fun c => (1 <=? c) && (c <? 128)) v then Some v else None.

Definition parse_formatter_args (s : str) : str * option (list (str * str)) :=
  match split_once_c c_lp s with
  | None => (trim s, None)
  | Some (name, rest) =>
      match rsplit_once [c_rp] rest with
      | None => (trim s, None)
      | Some (args, _) =>
          let parts := split_all c_semi args in
          let kv := flat_map (fun p => match split_once_c c_colon p with Some (a, b) => [(trim a, trim b)] | None => [] end) parts in
          (trim name, Some kv)
      end
  end.

(** Formatter::from_name_and_args with every format_* feature enabled *)
Definition formatter_of (name : str) (args : option (list (str * str))) : option fmt :=
  if str_eqb name (a2s [99;117;114;114;101;110;99;121]) then
    Some (FCurrency (from_args args n_width (table v_width) 0) (from_args args n_currency_code tiny3 s_USD))
  else if str_eqb name (a2s [110;117;109;98;101;114]) then Some (FNumber (from_args args n_grouping (table v_grouping) 0))
  else if str_eqb name (a2s [100;97;116;101;116;105;109;101]) then
    Some (FDateTime (from_args args n_date_length (table v_len) 2) (from_args args n_time_length (table v_len) 3))
  else if str_eqb name (a2s [100;97;116;101]) then Some (FDate (from_args args n_date_length (table v_len) 2))
  else if str_eqb name (a2s [116;105;109;101]) then Some (FTime (from_args args n_time_length (table v_len) 3))
  else if str_eqb name (a2s [108;105;115;116]) then
    Some (FList (from_args args n_list_type (table v_list_type) 2) (from_args args n_list_style (table v_list_style) 0))
  else None.

Definition parse_formatter (s : str) : res fmt :=
  let '(name, args) := parse_formatter_args s in
  match formatter_of name args with Some f => Ok f | None => Err E_UnknownFormatter end.

(* ---------- tags ---------- *)
(** find_opening_tag: (before, trimmed ident, after, skip) *)
Definition find_opening_tag (v : str) : option (str * str * str * nat) :=
  match split_once_c c_lt v with
  | None => None
  | Some (before, rest) =>
      match split_once_c c_gt rest with
      | None => None
      | Some (ident, after) => Some (before, trim ident, after, (blen before + blen ident + 2)%nat)
      end
  end.

(** the loop of find_closing_tag over [match_indices('<')]: [s] is the remaining text, [pos] its
    byte offset.  [raw]: the end offset uses the untrimmed tag length (current code); with
    [raw = false] it uses the trimmed length (the code before the fix). *)
Fixpoint scan_gen (raw : bool) (key : str) (s : str) (pos depth : nat) (best : option (nat * nat)) : option (nat * nat) :=
  match s with
  | [] => best
  | c :: r =>
      let next := (pos + len_utf8 c)%nat in
      if c =? c_lt then
        match split_once_c c_gt r with
        | None => scan_gen raw key r next depth best
        | Some (ident_raw, _) =>
            let ident := trim ident_raw in
            match strip_prefix [c_slash] ident with
            | Some cl =>
                if str_eqb (trim_start cl) key then
                  (if (depth =? 0)%nat
                   then scan_gen raw key r next depth
                          (Some (pos, (pos + blen (if raw then ident_raw else ident) + 2)%nat))
                   else scan_gen raw key r next (depth - 1)%nat best)
                else scan_gen raw key r next depth best
            | None =>
                if str_eqb ident key then scan_gen raw key r next (S depth) best
                else scan_gen raw key r next depth best
            end
        end
      else scan_gen raw key r next depth best
  end.
Definition scan_close := scan_gen true.
Definition scan_close_old := scan_gen false.

Section Parse.
(** identifier oracle (syn::Ident) *)
Variable idc : str -> idres.
(** serde_json::from_str::<BTreeMap<String, Literal>> on the argument text: entries in the
    map's (sorted) iteration order; [Err] = rejected *)
Variable json_args : str -> res (list (str * jarg)).
(** which scan (current / pre-fix) and which brace scan *)
Variable fixed : bool.

(** Key::new with the `quote` feature: Some trimmed name | None *)
Definition key_new (name : str) : res (option str) :=
  let n := trim name in
  match idc (replace_c c_minus c_us n) with
  | IdOk => Ok (Some n) | IdBad => Ok None | IdUnknown => Unmodelled
  end.

(** result: comp key (with comp_ prefix), between, after *)
Definition find_closing_tag (value key : str) : res (option (str * str * str)) :=
  bind (key_new (s_comp_ ++ key)) (fun k =>
  match k with
  | None => Ok None
  | Some k =>
      match scan_gen fixed key value 0 0 None with
      | None => Ok None
      | Some (st, en) =>
          match take_bytes value st, drop_bytes value en with
          | Some b, Some a => Ok (Some (k, b, a))
          | _, _ => Panic P_slice
          end
      end
  end).

Fixpoint find_valid_component (fuel : nat) (value : str) (skip_sum : nat) : res (option (str * str * str * str)) :=
  match fuel with
  | O => OutOfFuel
  | S fuel' =>
      match drop_bytes value skip_sum with
      | None => Panic P_slice
      | Some v =>
          match find_opening_tag v with
          | None => Ok None
          | Some (before, key, after, skip) =>
              bind (find_closing_tag after key) (fun r =>
              match r with
              | Some (k, between, after') =>
                  match take_bytes value (skip_sum + blen before)%nat with
                  | Some b => Ok (Some (k, b, between, after'))
                  | None => Panic P_slice
                  end
              | None => find_valid_component fuel' value (skip_sum + skip)%nat
              end)
          end
      end
  end.

(* ---------- foreign keys ---------- *)
Fixpoint keys_all (l : list str) : res (option (list str)) :=
  match l with
  | [] => Ok (Some [])
  | k :: t => bind (key_new k) (fun k' =>
              match k' with
              | Some k' => bind (keys_all t) (fun t' => match t' with Some t' => Ok (Some (k' :: t')) | None => Ok None end)
              | None => Ok None
              end)
  end.
Definition parse_key_path (p : str) : res (option (option str * list str)) :=
  match split_once_c c_colon p with
  | Some (ns, rest) =>
      bind (key_new ns) (fun ns' =>
      match ns' with
      | Some ns' => bind (keys_all (split_all c_dot rest)) (fun l => match l with Some l => Ok (Some (Some ns', l)) | None => Ok None end)
      | None => Ok None
      end)
  | None => bind (keys_all (split_all c_dot p)) (fun l => match l with Some l => Ok (Some (None, l)) | None => Ok None end)
  end.

(** brace scan of parse_foreign_key_args: Err on an unmatched '}', else the byte index of the
    brace that closes the arguments ([None]: never closed) *)
Fixpoint brace_scan (s : str) (pos depth : nat) : res (option nat) :=
  match s with
  | [] => Ok None
  | c :: r =>
      let next := (pos + len_utf8 c)%nat in
      if c =? c_lb then brace_scan r next (S depth)
      else if c =? c_rb then
        match depth with
        | O => Err E_UnexpectedToken
        | S d => if (d =? 0)%nat then Ok (Some pos) else brace_scan r next d
        end
      else brace_scan r next depth
  end.

(** BTreeMap insert (byte-wise = code-point order of the key) *)
Fixpoint str_ltb (a b : str) : bool :=
  match a, b with
  | _, [] => false
  | [], _ :: _ => true
  | x :: xs, y :: ys => if x <? y then true else if y <? x then false else str_ltb xs ys
  end.
Fixpoint map_insert {V} (k : str) (v : V) (m : list (str * V)) : list (str * V) :=
  match m with
  | [] => [(k, v)]
  | (k', v') :: t => if str_eqb k k' then (k, v) :: t
                     else if str_ltb k k' then (k, v) :: m else (k', v') :: map_insert k v t
  end.

(** the body of ParsedValue::new, with the recursive call as a parameter [new] *)
Section Step.
Variable new : str -> res pv.

(* parse_foreign_key_args_inner *)
Definition args_inner (before : str) : res (list (str * pv)) :=
  match json_args before with
  | Ok l =>
      fold_left (fun acc '(k, a) =>
        bind acc (fun m =>
        bind (match a with JString s => new s | JLit l => Ok (PLit l) end) (fun v =>
        Ok (map_insert (s_var_ ++ trim k) v m)))) l (Ok [])
  | Err _ => Err E_InvalidForeignKeyArgs
  | Panic p => Panic p | OutOfFuel => OutOfFuel | Unmodelled => Unmodelled
  end.

(* parse_foreign_key_args *)
Definition fk_args (s : str) : res (list (str * pv) * str) :=
  bind (brace_scan s 0 0) (fun oi =>
  match (if fixed then oi else Some (match oi with Some i => i | None => 0%nat end)) with
  | None => Err E_UnexpectedToken
  | Some index =>
    match take_bytes s (index + 1), drop_bytes s (index + 1) with
    | Some before, Some after =>
        match strip_prefix [c_rp] (trim_start after) with
        | None => Err E_UnexpectedToken
        | Some after' => bind (args_inner before) (fun a => Ok (a, after'))
        end
    | _, _ => Panic P_split_at
    end
  end).

Definition find_foreign_key (value : str) : res (option pv) :=
  match split_once s_fk value with
  | None => Ok None
  | Some (before, rest) =>
    match find_idx (fun c => (c =? c_comma) || (c =? c_rp)) rest with
    | None => Ok None
    | Some ns =>
      match take_bytes rest ns, drop_bytes rest ns with
      | Some keypath, Some (sep :: after) =>
        bind (parse_key_path keypath) (fun tgt =>
        match tgt with
        | None => Ok None
        | Some (nsp, path) =>
          bind (if sep =? c_comma then fk_args after else Ok ([], after)) (fun '(args, after') =>
          bind (new before) (fun b =>
          bind (new after') (fun a =>
          Ok (Some (PBloc [b; PForeign nsp path args; a])))))
        end)
      | _, _ => Ok None
      end
    end
  end.

Definition find_component (value : str) : res (option pv) :=
  bind (find_valid_component (S (length value)) value 0) (fun r =>
  match r with
  | None => Ok None
  | Some (k, before, between, after) =>
    bind (new before) (fun b => bind (new between) (fun m => bind (new after) (fun a =>
    Ok (Some (PBloc [b; PComp k m; a])))))
  end).

Definition find_variable (value : str) : res (option pv) :=
  match split_once s_open_var value with
  | None => Ok None
  | Some (before, rest) =>
    match split_once s_close_var rest with
    | None => Ok None
    | Some (ident0, after) =>
      let ident := trim ident0 in
      bind (new before) (fun b => bind (new after) (fun a =>
      match split_once_c c_comma ident with
      | Some (id, f) =>
          bind (parse_formatter f) (fun fm =>
          bind (key_new (s_var_ ++ trim id)) (fun k =>
          match k with None => Ok None | Some k' => Ok (Some (PBloc [b; PVar k' fm; a])) end))
      | None =>
          bind (key_new (s_var_ ++ ident)) (fun k =>
          match k with None => Ok None | Some k' => Ok (Some (PBloc [b; PVar k' FNone; a])) end)
      end))
    end
  end.

(** find_map over [find_foreign_key, find_component, find_variable], else a literal *)
Definition parse_chain (value : str) : res pv :=
  bind (find_foreign_key value) (fun fk =>
  match fk with
  | Some v => Ok v
  | None =>
    bind (find_component value) (fun comp =>
    match comp with
    | Some v => Ok v
    | None =>
      bind (find_variable value) (fun var =>
      match var with
      | Some v => Ok v
      | None => Ok (PLit (LStr value))
      end)
    end)
  end).

(** a component that opens before a foreign key contains it (`<b>$t(key)</b>`) and is tried first
    (current code only) *)
Definition comp_first (value : str) : res bool :=
  if fixed then
    match split_once s_fk value with
    | None => Ok false
    | Some (fk_before, _) =>
        bind (find_valid_component (S (length value)) value 0) (fun vc =>
        Ok (match vc with Some (_, before, _, _) => (blen before <? blen fk_before)%nat | None => false end))
    end
  else Ok false.

Definition parse_step (value : str) : res pv :=
  bind (comp_first value) (fun cf =>
  if cf then
    bind (find_component value) (fun comp =>
    match comp with
    | Some v => Ok v
    | None => parse_chain value
    end)
  else parse_chain value).
End Step.

Fixpoint parse (fuel : nat) (value : str) : res pv :=
  match fuel with
  | O => OutOfFuel
  | S fuel' => parse_step (parse fuel') value
  end.

Definition parse_top (s : str) : res pv := parse (S (S (length s))) s.
End Parse.
