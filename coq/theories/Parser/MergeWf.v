(** The domain on which the bridge theorems C03_spec / C07_spec / C07_warnings_exact are stated:
    [wf_case] (MergeCheck.v) plus the BTreeMap invariant that a parsed file never holds the same
    key twice in one object (since a87d288 the parser rejects such files: DuplicateKey). *)
From Coq Require Import List NArith Bool.
Import ListNotations.
From LI Require Import Parser.Merge Parser.MergeCheck.
Open Scope N_scope.

Fixpoint tree_nodup (t : tree) : bool :=
  match t with Group f => forest_nodup f | _ => true end
with forest_nodup (f : forest) : bool :=
  match f with
  | FNil => true
  | FCons k t r =>
      match forest_get r k with None => true | Some _ => false end && tree_nodup t && forest_nodup r
  end.

Definition wf_strict (c : case) : bool :=
  wf_case c && forallb (fun nf : nsfiles => forallb (fun lf : loc * forest => forest_nodup (snd lf)) (snd nf)) (c_nss c).

(** the correspondence predicates on the strict domain (code 1 = outside it) *)
Definition check_strict (spec : case -> impl_result -> bool) (c : case) : N :=
  if negb (wf_strict c) then 1 else check_with spec c.
Definition check_C03s : case -> N := check_strict spec_C03.
Definition check_C07s : case -> N := check_strict spec_C07.
