(** Round trip of the documented value grammar, part 1: algebra of piece normalisation, induction
    principle and character-class facts for source items (property C01). *)
From Coq Require Import List NArith ZArith Bool Arith Lia.
Import ListNotations.
From LI Require Import Base.StrOps Base.StrLemmas Parser.Parse Parser.Reduce Parser.Source.
Open Scope N_scope.

(** * piece normalisation is a monoid homomorphism up to normal form *)
Lemma pc_cons_text_text s t z : s <> [] ->
  pc_cons (PcText s) (pc_cons (PcText t) z) = pc_cons (PcText (s ++ t)) z.
Proof.
  intros Hs. destruct t as [|tc t].
  - cbn [pc_cons]. rewrite app_nil_r. reflexivity.
  - destruct s as [|sc s]; [congruence|]. cbn [pc_cons app].
    destruct z as [|[u| | |] z']; cbn [pc_cons app]; try reflexivity.
    rewrite <- app_assoc. reflexivity.
Qed.

Lemma pc_cons_fold x nb l :
  pc_cons x (fold_right pc_cons nb l) = fold_right pc_cons nb (pc_cons x l).
Proof.
  destruct x as [s| | |]; try reflexivity.
  destruct s as [|sc s]; [reflexivity|].
  destruct l as [|[t| | |] r]; try reflexivity.
  change (fold_right pc_cons nb (PcText t :: r)) with (pc_cons (PcText t) (fold_right pc_cons nb r)).
  rewrite pc_cons_text_text by discriminate.
  change (pc_cons (PcText (sc :: s)) (PcText t :: r)) with (PcText ((sc :: s) ++ t) :: r).
  reflexivity.
Qed.

Lemma pc_norm_app a b : pc_norm (a ++ b) = fold_right pc_cons (pc_norm b) a.
Proof. unfold pc_norm. apply fold_right_app. Qed.

Lemma fold_norm_left nb a : fold_right pc_cons nb a = fold_right pc_cons nb (pc_norm a).
Proof.
  induction a as [|x a IH]; [reflexivity|].
  cbn [fold_right]. rewrite IH. unfold pc_norm at 2. cbn [fold_right]. fold (pc_norm a). apply pc_cons_fold.
Qed.

Lemma pc_norm_congr a a' b b' :
  pc_norm a = pc_norm a' -> pc_norm b = pc_norm b' -> pc_norm (a ++ b) = pc_norm (a' ++ b').
Proof.
  intros Ha Hb. rewrite !pc_norm_app. rewrite Hb. rewrite (fold_norm_left _ a), (fold_norm_left _ a'), Ha. reflexivity.
Qed.

Lemma pc_norm_idem a : pc_norm (pc_norm a) = pc_norm a.
Proof. pose proof (fold_norm_left [] a) as H. symmetry. exact H. Qed.

(** a run of text pieces is one text piece *)
Lemma pc_norm_texts (ts : list str) : pc_norm (map PcText ts) = pc_norm [PcText (concat ts)].
Proof.
  induction ts as [|t ts IH]; [reflexivity|].
  cbn [map concat]. change (PcText t :: map PcText ts) with ([PcText t] ++ map PcText ts).
  rewrite pc_norm_app, IH. cbn [fold_right pc_norm].
  destruct t as [|c t]; [reflexivity|].
  rewrite pc_cons_text_text by discriminate. reflexivity.
Qed.

(** * induction principle for items (children through [Forall]) *)
Section ItemInd.
Variable P : item -> Prop.
Hypothesis HT : forall s, P (SText s).
Hypothesis HV : forall w1 n w2 fm, P (SVar w1 n w2 fm).
Hypothesis HC : forall w1 n w2 kids a b c, Forall P kids -> P (SComp w1 n w2 kids a b c).
Fixpoint item_ind2 (i : item) : P i :=
  match i with
  | SText s => HT s
  | SVar w1 n w2 fm => HV w1 n w2 fm
  | SComp w1 n w2 kids a b c =>
      HC w1 n w2 kids a b c
        ((fix go (l : list item) : Forall P l :=
            match l with [] => Forall_nil P | k :: r => Forall_cons k (item_ind2 k) (go r) end) kids)
  end.
End ItemInd.

(** * character classes *)
Definition textch (c : char) : bool := negb (c =? c_lt) && negb (c =? c_lb) && negb (c =? c_dollar).
Definition namech (c : char) : bool := is_alnum c || (c =? c_minus).
Definition fmtch (c : char) : bool := negb (c =? c_lt) && negb (c =? c_lb) && negb (c =? c_rb) && negb (c =? c_dollar).
Definition wsb (w : str) : bool := forallb is_ws w.

Lemma forallb_no_char (f : char -> bool) s c : forallb f s = true -> f c = false -> no_char c s.
Proof.
  intros H Hc. unfold no_char. apply Forall_forall. intros x Hx ->.
  rewrite forallb_forall in H. rewrite (H _ Hx) in Hc. discriminate.
Qed.
Lemma wsb_all_ws w : wsb w = true -> all_ws w.
Proof. unfold wsb, all_ws. intros H. apply Forall_forall. intros x Hx. rewrite forallb_forall in H. apply H; exact Hx. Qed.

Lemma no_char_app c a b : no_char c a -> no_char c b -> no_char c (a ++ b).
Proof. unfold no_char. intros; apply Forall_app; split; assumption. Qed.
Lemma no_char_cons c x a : x <> c -> no_char c a -> no_char c (x :: a).
Proof. unfold no_char. intros; constructor; assumption. Qed.
Lemma no_char_nil c : no_char c []. Proof. constructor. Qed.
Lemma no_char_concat c (ls : list str) : Forall (no_char c) ls -> no_char c (concat ls).
Proof. induction 1; cbn [concat]; [constructor | apply no_char_app; assumption]. Qed.

Lemma namech_not_ws c : namech c = true -> is_ws c = false.
Proof.
  unfold namech, is_alnum, is_alpha, is_ws, c_us, c_minus. intros H.
  repeat match goal with
         | H : _ || _ = true |- _ => apply orb_true_iff in H; destruct H as [H|H]
         | H : _ && _ = true |- _ => apply andb_true_iff in H; destruct H as [? ?]
         | H : (_ <=? _) = true |- _ => apply N.leb_le in H
         | H : (_ =? _) = true |- _ => apply N.eqb_eq in H
         end;
  repeat match goal with
         | |- _ || _ = false => apply orb_false_iff; split
         | |- _ && _ = false => apply andb_false_iff
         end;
  try (apply N.eqb_neq; lia);
  try solve [left; apply N.leb_gt; lia]; try solve [right; apply N.leb_gt; lia].
Qed.
