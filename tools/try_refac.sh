#!/bin/bash
# tools/try_refac.sh <tag> <out_dir> [check ids...]
# Runs checks against a behaviour-preserving refactoring (patch.diff) of /repo in a scratch worktree bind-mounted over
# /repo in a private mount namespace: the test suite must pass and every check must exit 0 (no false alarm).
set -u
TAG=$1; OUT=$2; shift 2; CHECKS=$@
W=/tmp/seedcheck; T=/tmp/seedcheck_target
export CARGO_NET_OFFLINE=true
if [ ! -d $W ]; then git -C /repo worktree add --detach $W HEAD >/dev/null 2>&1; fi
git -C $W checkout -q --detach $(git -C /repo rev-parse HEAD) 2>/dev/null; git -C $W checkout -q -- . ; git -C $W clean -fdq
if ! git -C $W apply $OUT/patch.diff; then echo "PATCH DOES NOT APPLY"; exit 3; fi
echo "== test suite with the refactoring"
(cd $W && CARGO_TARGET_DIR=$T cargo test --workspace --no-fail-fast --offline 2>&1 | grep -E "^test result|FAILED|^error")
if [ -z "$CHECKS" ]; then CHECKS="C01 C02 C03 C04 C05 C06 C07 C08 C09 C10 C11 C12 C13 C14 C15 C16 C17 C18 C19 C20"; fi
export CHECKS
unshare -m bash -c 'mount --bind '$W' /repo && cd /verif && export VERIF_CACHE=/tmp/seedcache && for c in $CHECKS; do echo $c; done | xargs -P 4 -I{} bash -c "timeout 3000 ./check {} > /tmp/seedlogs/refac_{}.out 2>&1; echo check_{}_exit=\$? \$(grep -E \"VIOLATION|INFRA|Traceback\" /tmp/seedlogs/refac_{}.out | head -3 | tr \"\\n\" \" \")"'
git -C $W checkout -q -- . ; git -C $W clean -fdq
