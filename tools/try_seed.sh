#!/bin/bash
# tools/try_seed.sh <ID> <seed_out_dir> [check ids...]
# Confirms a seeded change (patch.diff + demo/run.sh) in a scratch worktree and runs the /verif checks against it
# inside a private mount namespace (the scratch tree is bind-mounted over /repo for this process only), with a
# separate cache directory, so that /repo itself and concurrent work are never disturbed.
set -u
ID=$1; OUT=$2; shift 2; CHECKS=${@:-$ID}
W=/tmp/seedcheck; T=/tmp/seedcheck_target
export CARGO_NET_OFFLINE=true
if [ ! -d $W ]; then git -C /repo worktree add --detach $W HEAD >/dev/null 2>&1; fi
git -C $W checkout -q --detach $(git -C /repo rev-parse HEAD) 2>/dev/null; git -C $W checkout -q -- . ; git -C $W clean -fdq
echo "== demo on the unchanged tree"; (cd $OUT/demo && CARGO_TARGET_DIR=${T}_demo bash run.sh $W >/tmp/seed_demo0.log 2>&1); echo "demo_unchanged_exit=$?"
if ! git -C $W apply $OUT/patch.diff; then echo "PATCH DOES NOT APPLY"; exit 3; fi
echo "== test suite with the change"
(cd $W && CARGO_TARGET_DIR=$T cargo test --workspace --no-fail-fast --offline 2>&1 | grep -E "^test result|FAILED|^error")
echo "== demo on the changed tree"; (cd $OUT/demo && CARGO_TARGET_DIR=${T}_demo bash run.sh $W >/tmp/seed_demo1.log 2>&1); echo "demo_changed_exit=$?"
for c in $CHECKS; do
  echo "== check $c against the changed tree"
  unshare -m bash -c "mount --bind $W /repo && cd /verif && VERIF_CACHE=/tmp/seedcache timeout 3000 ./check $c 2>&1 | grep -E 'VIOLATION|KNOWN-FINDING|INFRA|Traceback' | head -5; echo check_${c}_exit=\${PIPESTATUS[0]}"
done
git -C $W checkout -q -- . ; git -C $W clean -fdq
