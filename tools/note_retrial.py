#!/usr/bin/env python3
"""tools/note_retrial.py SEED_DIR_NAME LOG_TAG "what was strengthened" — record in seeded/<name>/meta.json the result of running
the checks again against the same seeded change after a check was strengthened (log in /tmp/seedlogs/<LOG_TAG>.log)."""
import json, re, sys
name, tag, what = sys.argv[1], sys.argv[2], sys.argv[3]
log = open("/tmp/seedlogs/%s.log" % tag).read()
checks = {}
for m in re.finditer(r"== check (C\d+) against the changed tree\n(.*?)check_\1_exit=(\d+)", log, re.S):
    checks[m.group(1)] = {"exit": int(m.group(3)), "lines": [l for l in m.group(2).strip().split("\n") if l][:3]}
p = "/verif/seeded/%s/meta.json" % name
meta = json.load(open(p))
meta.setdefault("retrials", []).append({"after": what, "checks": checks, "caught_by": sorted(c for c, r in checks.items() if r["exit"] == 1)})
json.dump(meta, open(p, "w"), indent=1, ensure_ascii=False)
print(name, meta["retrials"][-1]["caught_by"])
