#!/bin/sh
# Re-check every compiled Props module and everything it depends on with Coq's independent checker and print the axioms.
cd /verif/coq && timeout 3000 coqchk -o -silent -Q theories LI $(ls theories/Props/*.v | sed 's#theories/#LI.#; s#/#.#g; s#\.v$##')
