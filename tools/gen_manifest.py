#!/usr/bin/env python3
import json
import os
import sys
sys.path.insert(0, os.path.join(os.path.dirname(os.path.abspath(__file__)), ".."))
from checks import registry as R

checks = []
for pid in R.ALL:
    c = R.CLAIMED.get(pid)
    if not c:
        continue
    checks.append({
        "property_id": pid,
        "quick_cmd": "./check %s --tier quick" % pid,
        "thorough_cmd": "./check %s --tier thorough" % pid,
        "evidence_file": "/verif/evidence/%s.json" % pid,
        "replay_cmd_template": "./check %s --replay {path}" % pid,
        "engine": c.get("engine", "coq"),
        "level_claimed": {"category": c["level"], "text": c["text"], "design_ref": c["design_ref"]},
        "level_note": c["note"],
        "technique": c["technique"],
    })
m = {
    "version": 1,
    "setup_cmd": "./setup.sh",
    "hooks": {
        "guard": "leptos_i18n_verif",
        "enable": "none needed: harnesses compile /repo sources by #[path]/include! and link the crates by path; "
                  "RUSTFLAGS='--cfg leptos_i18n_verif' is reserved and currently unused",
        "baseline_off_cmd": "cd /repo && cargo test --workspace --no-fail-fast --offline",
        "source_commits": [],
        "add_only": True,
    },
    "engines": [
        {"name": "coq", "path": "/verif/coq", "serves_properties": sorted(R.CLAIMED),
         "kind_free_text": "Coq 8.16.1 development (models, theorems); cases evaluated with coqc+vm_compute"},
        {"name": "harness", "path": "/verif/harness", "serves_properties": sorted(R.CLAIMED),
         "kind_free_text": "cargo workspace compiled against /repo's working tree on every check (correspondence)"},
    ],
    "checks": checks,
    "notes": "Driver: ./check <ID>. Decision rule in DESIGN.md §2.2; known findings in known_findings.json.",
    "not_applicable": [{"property_id": p, "reason": R.NA.get(p, R.PENDING_REASON) if hasattr(R, "NA") else R.PENDING_REASON}
                       for p in R.ALL if p not in R.CLAIMED],
}
out = os.path.join(os.path.dirname(os.path.abspath(__file__)), "..", "MANIFEST.json")
json.dump(m, open(out, "w"), indent=1)
print("MANIFEST.json:", len(checks), "checks,", len(m["not_applicable"]), "not claimed")
