#!/usr/bin/env python3
"""tools/keep_seed.py ID  — after tools/try_seed.sh confirmed a seeded change, copy it to /verif/seeded/ID/ and
record in meta.json what was run and what each check reported."""
import json, os, re, shutil, sys
sid = sys.argv[1]                      # tag: C06, or C06b for a second seeded change of the same property
src = sys.argv[2] if len(sys.argv) > 2 else "/tmp/seed_%s_out" % sid
log = open("/tmp/seedlogs/%s.log" % sid).read()
dst = "/verif/seeded/%s" % sid
shutil.rmtree(dst, ignore_errors=True)
os.makedirs(dst)
shutil.copy(os.path.join(src, "patch.diff"), dst)
shutil.copytree(os.path.join(src, "demo"), os.path.join(dst, "demo"), ignore=shutil.ignore_patterns("target", "*.log"))
meta = json.load(open(os.path.join(src, "meta.json")))
tests = re.findall(r"test result: ok\. (\d+) passed; (\d+) failed", log)
checks = {}
for m in re.finditer(r"== check (C\d+) against the changed tree\n(.*?)check_\1_exit=(\d+)", log, re.S):
    checks[m.group(1)] = {"exit": int(m.group(3)), "lines": [l for l in m.group(2).strip().split("\n") if l][:3]}
meta["confirmed_by_lead"] = {
    "how": "tools/try_seed.sh: scratch worktree of /repo HEAD (/tmp/seedcheck), patch applied with git apply, "
           "`cargo test --workspace --no-fail-fast --offline` in the worktree, demo/run.sh on the unchanged and on the changed tree, "
           "then ./check <ID> with the worktree bind-mounted over /repo in a private mount namespace (equivalent to "
           "`git -C /repo apply patch.diff; ./check <ID>; git -C /repo checkout -- .` without disturbing concurrent work)",
    "tests_with_change": {"passed": sum(int(a) for a, _ in tests), "failed": sum(int(b) for _, b in tests)},
    "demo_exit_unchanged": int(re.search(r"demo_unchanged_exit=(\d+)", log).group(1)),
    "demo_exit_changed": int(re.search(r"demo_changed_exit=(\d+)", log).group(1)),
    "checks": checks,
    "caught_by": sorted(c for c, r in checks.items() if r["exit"] == 1),
}
json.dump(meta, open(os.path.join(dst, "meta.json"), "w"), indent=1, ensure_ascii=False)
print(sid, "tests", meta["confirmed_by_lead"]["tests_with_change"], "demo", meta["confirmed_by_lead"]["demo_exit_unchanged"],
      meta["confirmed_by_lead"]["demo_exit_changed"], "caught_by", meta["confirmed_by_lead"]["caught_by"])
