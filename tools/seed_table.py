#!/usr/bin/env python3
"""print the markdown table of DESIGN.md §16 from /verif/seeded/*/meta.json"""
import glob, json, os, sys
COMPACT = "--compact" in sys.argv
rows = []
for d in sorted(glob.glob("/verif/seeded/*")):
    try:
        m = json.load(open(os.path.join(d, "meta.json")))
    except OSError:
        continue
    c = m.get("confirmed_by_lead", {})
    sid = os.path.basename(d)
    summ = " ".join(m.get("summary", "").split())
    need = " ".join(m.get("what_it_needs_to_manifest", "").split())
    cut = lambda s, n: s if len(s) <= n else s[:n - 1].rsplit(" ", 1)[0] + " …"
    caught = ", ".join(c.get("caught_by", [])) or "MISSED"
    ran = ", ".join("%s→%s" % (k, "VIOLATION" if v["exit"] == 1 else "exit %d" % v["exit"]) for k, v in sorted(c.get("checks", {}).items()))
    for r in m.get("retrials", []):
        ran += "; after strengthening (%s): %s" % (cut(r["after"], 70 if COMPACT else 200), ", ".join("%s→%s" % (k, "VIOLATION" if v["exit"] == 1 else "exit %d" % v["exit"]) for k, v in sorted(r["checks"].items())))
    rows.append("| %s | %s | %s | %s | %s |" % (sid, m.get("property"), cut(summ, 150 if COMPACT else 400), cut(need, 110 if COMPACT else 300), ran))
print("| seeded/ | property | change (compiles, 85 tests pass) | needs to manifest | checks run → result |")
print("|---|---|---|---|---|")
print("\n".join(rows))
